// Finding D5c (properties C02 and C09), reproduced on the real crate with the public API only.
// KIND: Rust integration test. Linux x86_64 user process, no privileges.
// INSTALL: cp /verif/findings/D5c_demo.rs <checkout>/tests/d5c_demo.rs
// RUN:     cargo test --offline --test d5c_demo
// EXPECT:  FAILS before the fix commit ("update_flags wrote to non-page-table physical memory"),
//          passes from the fix commit on.
//
// RecursivePageTable, 4 KiB `update_flags` of a page that lies inside a 2 MiB huge-page mapping.
// "Physical memory" is a memfd; the MMU's recursive mapping is simulated by mmap-ing the memfd
// frames at the recursive virtual addresses (recursive index 1): (1,1,1,1) -> P4, (1,1,1,p4) -> P3,
// (1,1,p4,p3) -> P2 and - as a CPU does when the walk R,p4,p3,p2 ends on the huge P2 entry -
// (1,p4,p3,p2) -> the first 4 KiB of the 2 MiB DATA frame. All memory is pre-filled with 0xA5.
// (Derived from the demonstration a mutant author wrote for `unmap`, seeded/C09-r3m1/demo.rs.)

use std::ffi::c_void;
use x86_64::structures::paging::mapper::FlagUpdateError;
use x86_64::structures::paging::{
    FrameAllocator, Mapper, Page, PageTable, PageTableFlags, PageTableIndex, PhysFrame,
    RecursivePageTable, Size2MiB, Size4KiB,
};
use x86_64::{PhysAddr, VirtAddr};

extern "C" {
    fn mmap(addr: *mut c_void, len: usize, prot: i32, flags: i32, fd: i32, off: i64)
        -> *mut c_void;
    fn memfd_create(name: *const u8, flags: u32) -> i32;
    fn ftruncate(fd: i32, len: i64) -> i32;
}

const PROT_RW: i32 = 0x1 | 0x2;
const MAP_SHARED: i32 = 0x01;
const MAP_FIXED_NOREPLACE: i32 = 0x10_0000;

const PHYS_SIZE: usize = 4 << 20; // 4 MiB of "physical memory"
const P4_PHYS: u64 = 0x1000;
const DATA_PHYS: u64 = 0x20_0000; // the 2 MiB data frame
const R: u16 = 1; // recursive index

fn rec_addr(a: u16, b: u16, c: u16, d: u16) -> u64 {
    Page::<Size4KiB>::from_page_table_indices(
        PageTableIndex::new(a),
        PageTableIndex::new(b),
        PageTableIndex::new(c),
        PageTableIndex::new(d),
    )
    .start_address()
    .as_u64()
}

unsafe fn map_phys_at(fd: i32, virt: u64, phys: u64) {
    let p = mmap(
        virt as *mut c_void,
        4096,
        PROT_RW,
        MAP_SHARED | MAP_FIXED_NOREPLACE,
        fd,
        phys as i64,
    );
    assert_eq!(p as u64, virt, "could not place simulated MMU window at {:#x}", virt);
}

struct Bump {
    next: u64,
    handed_out: Vec<u64>,
}
unsafe impl FrameAllocator<Size4KiB> for Bump {
    fn allocate_frame(&mut self) -> Option<PhysFrame<Size4KiB>> {
        let f = PhysFrame::from_start_address(PhysAddr::new(self.next)).unwrap();
        self.handed_out.push(self.next);
        self.next += 0x1000;
        Some(f)
    }
}

#[test]
fn recursive_update_flags_4k_inside_2m_huge_page_leaves_data_frame_alone() {
    unsafe {
        let fd = memfd_create(b"phys\0".as_ptr(), 0);
        assert!(fd >= 0);
        assert_eq!(ftruncate(fd, PHYS_SIZE as i64), 0);

        // linear window on all of "physical memory" for pre-filling / snapshotting
        let lin = mmap(core::ptr::null_mut(), PHYS_SIZE, PROT_RW, MAP_SHARED, fd, 0) as *mut u8;
        assert!(!lin.is_null() && lin as isize != -1);
        core::ptr::write_bytes(lin, 0xA5, PHYS_SIZE);

        // the level-4 table: empty except for the recursive entry
        let p4_lin = lin.add(P4_PHYS as usize) as *mut PageTable;
        (*p4_lin).zero();
        (&mut *p4_lin)[R as usize].set_addr(
            PhysAddr::new(P4_PHYS),
            PageTableFlags::PRESENT | PageTableFlags::WRITABLE,
        );

        // page to map: p4 = 2, p3 = 3, p2 = 4 (2 MiB page)
        let (i4, i3, i2) = (2u16, 3u16, 4u16);
        let huge_page: Page<Size2MiB> = Page::from_page_table_indices_2mib(
            PageTableIndex::new(i4),
            PageTableIndex::new(i3),
            PageTableIndex::new(i2),
        );

        // simulated MMU: recursive windows
        map_phys_at(fd, rec_addr(R, R, R, R), P4_PHYS); // P4
        map_phys_at(fd, rec_addr(R, R, R, i4), 0x2000); // P3 (1st allocated frame)
        map_phys_at(fd, rec_addr(R, R, i4, i3), 0x3000); // P2 (2nd allocated frame)
        map_phys_at(fd, rec_addr(R, i4, i3, i2), DATA_PHYS); // what the CPU shows as "P1"

        let p4 = &mut *(rec_addr(R, R, R, R) as *mut PageTable);
        let mut rpt = RecursivePageTable::new_unchecked(p4, PageTableIndex::new(R));
        let mut alloc = Bump { next: 0x2000, handed_out: Vec::new() };

        let data_frame: PhysFrame<Size2MiB> =
            PhysFrame::from_start_address(PhysAddr::new(DATA_PHYS)).unwrap();
        rpt.map_to(
            huge_page,
            data_frame,
            PageTableFlags::PRESENT | PageTableFlags::WRITABLE,
            &mut alloc,
        )
        .expect("2 MiB map_to")
        .ignore();
        assert_eq!(alloc.handed_out, vec![0x2000, 0x3000]);

        // snapshot of everything that is NOT a page table of the hierarchy
        let snapshot: Vec<u8> = std::slice::from_raw_parts(lin, PHYS_SIZE).to_vec();

        // 4 KiB update_flags of the 6th small page inside the huge page
        let small: Page<Size4KiB> = Page::containing_address(VirtAddr::new(
            huge_page.start_address().as_u64() + 5 * 4096,
        ));
        let res = Mapper::<Size4KiB>::update_flags(&mut rpt, small, PageTableFlags::PRESENT);
        match &res {
            Ok(_) => println!("update_flags returned Ok"),
            Err(e) => println!("update_flags returned Err({:?})", e),
        }

        let now = std::slice::from_raw_parts(lin, PHYS_SIZE);
        let table_frames = [P4_PHYS, 0x2000, 0x3000];
        let mut bad = Vec::new();
        for (off, (a, b)) in snapshot.iter().zip(now.iter()).enumerate() {
            let frame = (off as u64) & !0xfff;
            if a != b && !table_frames.contains(&frame) {
                bad.push(off);
            }
        }
        assert!(
            bad.is_empty(),
            "update_flags wrote to non-page-table physical memory at offsets {:#x?} (data frame is at {:#x})",
            &bad[..bad.len().min(8)],
            DATA_PHYS
        );
        assert!(
            matches!(res, Err(FlagUpdateError::ParentEntryHugePage)),
            "4 KiB update_flags inside a 2 MiB huge page must report ParentEntryHugePage"
        );
        if let Ok(flush) = res {
            flush.ignore();
        }
    }
}
