// ===========================================================================
// /verif/prelude/verus_prelude.rs  -- spec vocabulary and shims (hand written,
// NOT part of /repo). Everything marked external_body / assume_specification
// here is an ASSUMPTION and is listed in every evidence file.
// ===========================================================================
global size_of usize == 8;

use core::marker::PhantomData;
use core::convert::TryFrom;
use core::ops::{Add, AddAssign, Sub, SubAssign, Range, RangeFrom, RangeInclusive, RangeTo, RangeFull, Index, IndexMut};
use vstd::std_specs::cmp::*;
use vstd::std_specs::convert::IntoSpec;
use vstd::std_specs::ops::*;
use vstd::bits::*;
use vstd::arithmetic::power2::*;
use vstd::arithmetic::div_mod::*;
use vstd::arithmetic::mul::*;

// ---- address vocabulary ---------------------------------------------------

/// bits 47..63 all equal
pub open spec fn canonical(a: u64) -> bool {
    (a >> 47) == 0 || (a >> 47) == 0x1ffff
}

/// sign extension of bit 47 into bits 48..63
pub open spec fn sext48(a: u64) -> u64 {
    if (a & 0x8000_0000_0000) != 0 { a | 0xffff_0000_0000_0000 } else { a & 0x0000_ffff_ffff_ffff }
}

/// rank of a canonical address in the contiguous sequence of 2^48 canonical addresses
pub open spec fn pos(a: u64) -> int {
    (a & 0xffff_ffff_ffff) as int
}

/// the canonical address with rank p (0 <= p < 2^48)
pub open spec fn unpos(p: int) -> u64 {
    sext48(p as u64)
}

pub open spec fn phys_ok(a: u64) -> bool {
    a < 0x10_0000_0000_0000
}

pub open spec fn pow2_u64(a: u64) -> bool {
    a != 0 && (a & sub(a, 1)) == 0
}

pub open spec fn valid_size(s: u64) -> bool {
    s == 4096 || s == 0x20_0000 || s == 0x4000_0000
}

/// m is a multiple of a (used as quantifier trigger)
#[verifier::opaque]
pub open spec fn is_mult(m: int, a: int) -> bool { m % a == 0 }

/// upper half?
pub open spec fn upper_half(a: u64) -> bool {
    (a >> 47) == 0x1ffff
}

pub open spec fn same_half(a: u64, b: u64) -> bool {
    canonical(a) && canonical(b) && ((a >> 47) == (b >> 47))
}

// ---- basic bit-vector lemmas ------------------------------------------------

pub proof fn lemma_sext48(a: u64)
    ensures
        (((a << 16) as i64 >> 16) as u64) == sext48(a),
        canonical(sext48(a)),
        canonical(a) ==> sext48(a) == a,
        sext48(a) == a ==> canonical(a),
        sext48(sext48(a)) == sext48(a),
        sext48(a & 0xffff_ffff_ffff) == sext48(a),
        sext48(a) & 0xffff_ffff_ffff == a & 0xffff_ffff_ffff,
{
    assert((((a << 16) as i64 >> 16) as u64) == sext48(a)) by (bit_vector);
    assert(canonical(sext48(a))) by (bit_vector);
    assert(canonical(a) ==> sext48(a) == a) by (bit_vector);
    assert(sext48(a) == a ==> canonical(a)) by (bit_vector);
    assert(sext48(sext48(a)) == sext48(a)) by (bit_vector);
    assert(sext48(a & 0xffff_ffff_ffff) == sext48(a)) by (bit_vector);
    assert(sext48(a) & 0xffff_ffff_ffff == a & 0xffff_ffff_ffff) by (bit_vector);
}

pub proof fn lemma_canonical_halves(a: u64)
    ensures
        canonical(a) <==> (a < 0x8000_0000_0000 || a >= 0xffff_8000_0000_0000),
        canonical(a) && a < 0x8000_0000_0000 ==> pos(a) == a,
        canonical(a) && a >= 0xffff_8000_0000_0000 ==> pos(a) == a - 0xffff_0000_0000_0000,
        0 <= pos(a) < 0x1_0000_0000_0000,
        upper_half(a) <==> a >= 0xffff_8000_0000_0000,
        (a >> 47) == 0 <==> a < 0x8000_0000_0000,
{
    assert(canonical(a) <==> (a < 0x8000_0000_0000 || a >= 0xffff_8000_0000_0000)) by (bit_vector);
    assert(a < 0x8000_0000_0000 ==> a & 0xffff_ffff_ffff == a) by (bit_vector);
    assert(a >= 0xffff_8000_0000_0000 ==> a & 0xffff_ffff_ffff == sub(a, 0xffff_0000_0000_0000)) by (bit_vector);
    assert(a & 0xffff_ffff_ffff < 0x1_0000_0000_0000) by (bit_vector);
    assert(((a >> 47) == 0x1ffff) <==> a >= 0xffff_8000_0000_0000) by (bit_vector);
    assert(((a >> 47) == 0) <==> a < 0x8000_0000_0000) by (bit_vector);
}

pub proof fn lemma_unpos(p: u64)
    requires p < 0x1_0000_0000_0000
    ensures
        canonical(sext48(p)),
        pos(sext48(p)) == p,
        p < 0x8000_0000_0000 ==> sext48(p) == p,
        p >= 0x8000_0000_0000 ==> sext48(p) == p + 0xffff_0000_0000_0000,
{
    assert(p < 0x1_0000_0000_0000 ==> canonical(sext48(p))) by (bit_vector);
    assert(p < 0x1_0000_0000_0000 ==> sext48(p) & 0xffff_ffff_ffff == p) by (bit_vector);
    assert(p < 0x8000_0000_0000 ==> sext48(p) == p) by (bit_vector);
    assert(p >= 0x8000_0000_0000 && p < 0x1_0000_0000_0000 ==> sext48(p) == add(p, 0xffff_0000_0000_0000)) by (bit_vector);
}

/// a canonical address is determined by its rank
pub proof fn lemma_pos_injective(a: u64, b: u64)
    requires canonical(a), canonical(b), pos(a) == pos(b)
    ensures a == b
{
    assert(canonical(a) && canonical(b) && (a & 0xffff_ffff_ffff) == (b & 0xffff_ffff_ffff) ==> a == b) by (bit_vector);
}

pub proof fn lemma_pos_order(a: u64, b: u64)
    requires canonical(a), canonical(b)
    ensures a <= b <==> pos(a) <= pos(b), a < b <==> pos(a) < pos(b)
{
    lemma_canonical_halves(a);
    lemma_canonical_halves(b);
}

pub proof fn lemma_pow2_facts(align: u64)
    requires pow2_u64(align)
    ensures
        align >= 1,
        exists|k: u64| k < 64 && align == (1u64 << k),
{
    assert(pow2_u64(align) ==> exists|k: u64| k < 64 && align == (1u64 << k)) by {
        lemma_pow2_is_shift(align);
    }
}

pub proof fn lemma_pow2_is_shift(align: u64)
    requires pow2_u64(align)
    ensures exists|k: u64| k < 64 && align == (1u64 << k)
{
    // 64 cases, decided by the bit-vector solver
    assert(align != 0 && (align & sub(align, 1)) == 0 ==>
        align == 1u64 << 0 || align == 1u64 << 1 || align == 1u64 << 2 || align == 1u64 << 3 ||
        align == 1u64 << 4 || align == 1u64 << 5 || align == 1u64 << 6 || align == 1u64 << 7 ||
        align == 1u64 << 8 || align == 1u64 << 9 || align == 1u64 << 10 || align == 1u64 << 11 ||
        align == 1u64 << 12 || align == 1u64 << 13 || align == 1u64 << 14 || align == 1u64 << 15 ||
        align == 1u64 << 16 || align == 1u64 << 17 || align == 1u64 << 18 || align == 1u64 << 19 ||
        align == 1u64 << 20 || align == 1u64 << 21 || align == 1u64 << 22 || align == 1u64 << 23 ||
        align == 1u64 << 24 || align == 1u64 << 25 || align == 1u64 << 26 || align == 1u64 << 27 ||
        align == 1u64 << 28 || align == 1u64 << 29 || align == 1u64 << 30 || align == 1u64 << 31 ||
        align == 1u64 << 32 || align == 1u64 << 33 || align == 1u64 << 34 || align == 1u64 << 35 ||
        align == 1u64 << 36 || align == 1u64 << 37 || align == 1u64 << 38 || align == 1u64 << 39 ||
        align == 1u64 << 40 || align == 1u64 << 41 || align == 1u64 << 42 || align == 1u64 << 43 ||
        align == 1u64 << 44 || align == 1u64 << 45 || align == 1u64 << 46 || align == 1u64 << 47 ||
        align == 1u64 << 48 || align == 1u64 << 49 || align == 1u64 << 50 || align == 1u64 << 51 ||
        align == 1u64 << 52 || align == 1u64 << 53 || align == 1u64 << 54 || align == 1u64 << 55 ||
        align == 1u64 << 56 || align == 1u64 << 57 || align == 1u64 << 58 || align == 1u64 << 59 ||
        align == 1u64 << 60 || align == 1u64 << 61 || align == 1u64 << 62 || align == 1u64 << 63
    ) by (bit_vector);
    let k: u64 = choose|k: u64| k < 64 && align == (1u64 << k);
}

pub proof fn lemma_mask_mod(a: u64, k: nat)
    requires k < 64
    ensures
        (1u64 << (k as u64)) as int == pow2(k),
        (a & sub(1u64 << (k as u64), 1)) as int == a as int % pow2(k) as int,
{
    lemma_u64_pow2_no_overflow(k);
    lemma_u64_shl_is_mul(1u64, k as u64);
    lemma_u64_low_bits_mask_is_mod(a, k);
    lemma_pow2_pos(k);
    assert(low_bits_mask(k) == pow2(k) - 1);
}

/// for a power of two: masking is the remainder, clearing the mask subtracts the remainder
pub proof fn lemma_pow2_mask_mod(a: u64, align: u64)
    requires pow2_u64(align)
    ensures
        (a & sub(align, 1)) as int == a as int % align as int,
        (a & !sub(align, 1)) as int == a as int - a as int % align as int,
        (a | sub(align, 1)) as int == a as int - a as int % align as int + align as int - 1,
        (a & sub(align, 1)) < align,
        align >= 1,
{
    lemma_pow2_is_shift(align);
    let k: u64 = choose|k: u64| k < 64 && align == (1u64 << k);
    lemma_mask_mod(a, k as nat);
    let m = sub(align, 1);
    assert((a & !m) == sub(a, a & m)) by (bit_vector);
    assert((a & m) <= a) by (bit_vector);
    assert((a | m) == add(a & !m, m)) by (bit_vector);
    assert((a & !m) <= 0xffff_ffff_ffff_ffffu64 - m) by (bit_vector);
    lemma_pow2_pos(k as nat);
}

/// multiples of `al` (al > 0): floor/ceil characterisation used by the alignment contracts
pub proof fn lemma_floor_multiple(a: int, al: int)
    requires al > 0, a >= 0
    ensures
        is_mult(a - a % al, al),
        forall|m: int| #[trigger] is_mult(m, al) && m <= a ==> m <= a - a % al,
        a % al != 0 ==> is_mult(a - a % al + al, al),
        forall|m: int| #[trigger] is_mult(m, al) && m >= a && a % al != 0 ==> m >= a - a % al + al,
        0 <= a % al < al,
{
    reveal(is_mult);
    lemma_fundamental_div_mod(a, al);
    let qa = a / al;
    lemma_mul_is_commutative(al, qa);
    lemma_mod_multiples_basic(qa, al);
    lemma_mod_multiples_basic(qa + 1, al);
    lemma_mul_is_distributive_add_other_way(al, qa, 1);
    assert((qa + 1) * al == qa * al + al);
    assert forall|m: int| #[trigger] is_mult(m, al) && m <= a implies m <= a - a % al by {
        lemma_fundamental_div_mod(m, al);
        let qm = m / al;
        lemma_mul_is_commutative(al, qm);
        if qm > qa {
            lemma_mul_inequality(qa + 1, qm, al);
            assert(false);
        }
        lemma_mul_inequality(qm, qa, al);
    }
    assert forall|m: int| #[trigger] is_mult(m, al) && m >= a && a % al != 0 implies m >= a - a % al + al by {
        lemma_fundamental_div_mod(m, al);
        let qm = m / al;
        lemma_mul_is_commutative(al, qm);
        if qm <= qa {
            lemma_mul_inequality(qm, qa, al);
            assert(false);
        }
        lemma_mul_inequality(qa + 1, qm, al);
    }
}

// ---- conversions ---------------------------------------------------------

/// value of an `Into<u64>` argument (vstd's spec for the std integer conversions)
pub open spec fn into_u64<U: Into<u64>>(a: U) -> u64 { IntoSpec::<u64>::into_spec(a) }

/// ASSUMED: `u64: Into<u64>` is the identity (core's blanket `impl<T> From<T> for T`; vstd has no spec for it)
#[verifier::external_body]
pub proof fn axiom_u64_into_u64()
    ensures <u64 as IntoSpec<u64>>::obeys_into_spec(), forall|x: u64| #[trigger] into_u64(x) == x,
{
}

/// integer value of a raw pointer: uninterpreted (any u64 is possible)
pub uninterp spec fn ptr_addr_spec<T: ?Sized>(p: *const T) -> u64;

/// stands for `ptr as *const () as u64` (R8-style stated rewrite; ASSUMED to be that cast)
#[verifier::external_body]
pub fn ptr_to_u64<T: ?Sized>(p: *const T) -> (r: u64)
    ensures r == ptr_addr_spec(p)
{
    p as *const () as u64
}

// ---- assumed contracts on std ----------------------------------------------

pub assume_specification[ u64::is_power_of_two ](x: u64) -> (r: bool)
    ensures r == pow2_u64(x);

pub assume_specification<T: Ord>[ core::cmp::min ](a: T, b: T) -> (r: T)
    ensures <T as OrdSpec>::obeys_cmp_spec() ==> r == (if a.cmp_spec(&b) == core::cmp::Ordering::Greater { b } else { a });

pub assume_specification<T: Ord>[ core::cmp::max ](a: T, b: T) -> (r: T)
    ensures <T as OrdSpec>::obeys_cmp_spec() ==> r == (if a.cmp_spec(&b) == core::cmp::Ordering::Greater { a } else { b });

pub assume_specification<T, E>[ Result::<T, E>::unwrap_or ](s: Result<T, E>, default: T) -> (r: T)
    ensures r == (match s { Ok(v) => v, Err(_) => default });


// ASSUMED contracts of core integer methods that vstd does not specify (u64)
pub assume_specification[ u64::checked_shl ](x: u64, n: u32) -> (r: Option<u64>)
    ensures n < 64 ==> r == Some(x << n), n >= 64 ==> r is None;
pub assume_specification[ u64::checked_shr ](x: u64, n: u32) -> (r: Option<u64>)
    ensures n < 64 ==> r == Some(x >> n), n >= 64 ==> r is None;
pub assume_specification[ u64::overflowing_add ](x: u64, y: u64) -> (r: (u64, bool))
    ensures r.0 as int == (x + y) % (0xffff_ffff_ffff_ffffint + 1), r.1 == (x + y > 0xffff_ffff_ffff_ffff);
pub assume_specification[ u64::overflowing_sub ](x: u64, y: u64) -> (r: (u64, bool))
    ensures r.0 as int == (x - y) % (0xffff_ffff_ffff_ffffint + 1), r.1 == (x < y);
pub assume_specification[ u64::abs_diff ](x: u64, y: u64) -> (r: u64)
    ensures r as int == (if x >= y { x - y } else { y - x });

// ASSUMED contracts of core integer methods that vstd does not specify (usize)
pub assume_specification[ usize::checked_shl ](x: usize, n: u32) -> (r: Option<usize>)
    ensures n < 64 ==> r == Some(x << n), n >= 64 ==> r is None;
pub assume_specification[ usize::checked_shr ](x: usize, n: u32) -> (r: Option<usize>)
    ensures n < 64 ==> r == Some(x >> n), n >= 64 ==> r is None;
pub assume_specification[ usize::overflowing_add ](x: usize, y: usize) -> (r: (usize, bool))
    ensures r.0 as int == (x + y) % (0xffff_ffff_ffff_ffffint + 1), r.1 == (x + y > 0xffff_ffff_ffff_ffff);
pub assume_specification[ usize::overflowing_sub ](x: usize, y: usize) -> (r: (usize, bool))
    ensures r.0 as int == (x - y) % (0xffff_ffff_ffff_ffffint + 1), r.1 == (x < y);
pub assume_specification[ usize::abs_diff ](x: usize, y: usize) -> (r: usize)
    ensures r as int == (if x >= y { x - y } else { y - x });

// ASSUMED contracts of core integer methods that vstd does not specify (u32)
pub assume_specification[ u32::checked_shl ](x: u32, n: u32) -> (r: Option<u32>)
    ensures n < 32 ==> r == Some(x << n), n >= 32 ==> r is None;
pub assume_specification[ u32::checked_shr ](x: u32, n: u32) -> (r: Option<u32>)
    ensures n < 32 ==> r == Some(x >> n), n >= 32 ==> r is None;
pub assume_specification[ u32::overflowing_add ](x: u32, y: u32) -> (r: (u32, bool))
    ensures r.0 as int == (x + y) % (0xffff_ffffint + 1), r.1 == (x + y > 0xffff_ffff);
pub assume_specification[ u32::overflowing_sub ](x: u32, y: u32) -> (r: (u32, bool))
    ensures r.0 as int == (x - y) % (0xffff_ffffint + 1), r.1 == (x < y);
pub assume_specification[ u32::abs_diff ](x: u32, y: u32) -> (r: u32)
    ensures r as int == (if x >= y { x - y } else { y - x });

// ASSUMED contracts of core integer methods that vstd does not specify (u16)
pub assume_specification[ u16::checked_shl ](x: u16, n: u32) -> (r: Option<u16>)
    ensures n < 16 ==> r == Some(x << n), n >= 16 ==> r is None;
pub assume_specification[ u16::checked_shr ](x: u16, n: u32) -> (r: Option<u16>)
    ensures n < 16 ==> r == Some(x >> n), n >= 16 ==> r is None;
pub assume_specification[ u16::overflowing_add ](x: u16, y: u16) -> (r: (u16, bool))
    ensures r.0 as int == (x + y) % (0xffffint + 1), r.1 == (x + y > 0xffff);
pub assume_specification[ u16::overflowing_sub ](x: u16, y: u16) -> (r: (u16, bool))
    ensures r.0 as int == (x - y) % (0xffffint + 1), r.1 == (x < y);
pub assume_specification[ u16::abs_diff ](x: u16, y: u16) -> (r: u16)
    ensures r as int == (if x >= y { x - y } else { y - x });

// ---- mode B helpers: panics as divergence (no precondition) ------------------

#[verifier::external_body]
pub fn vpanic<T>() -> (r: T)
    ensures false
{
    panic!()
}

#[verifier::external_body]
pub fn vassert(c: bool)
    ensures c
{
    assert!(c)
}

pub trait VUnwrap<T> {
    spec fn v_is_some(&self) -> bool;
    spec fn v_value(&self) -> T;
    fn vunwrap(self) -> (r: T)
        ensures self.v_is_some(), r == self.v_value();
}

impl<T> VUnwrap<T> for Option<T> {
    open spec fn v_is_some(&self) -> bool { self is Some }
    open spec fn v_value(&self) -> T { self->Some_0 }
    #[verifier::external_body]
    fn vunwrap(self) -> (r: T) { self.unwrap() }
}

impl<T, E> VUnwrap<T> for Result<T, E> {
    open spec fn v_is_some(&self) -> bool { self is Ok }
    open spec fn v_value(&self) -> T { self->Ok_0 }
    #[verifier::external_body]
    fn vunwrap(self) -> (r: T) { match self { Ok(v) => v, Err(_) => panic!() } }
}

// ---- bit_field::BitField shim (contracts ASSUMED; cross-checked against the real crate by E1) ----

pub trait VRange {
    spec fn lo(&self) -> int;
    /// exclusive upper bound, clamped to `width`
    spec fn hi(&self, width: int) -> int;
}
impl VRange for Range<usize> {
    open spec fn lo(&self) -> int { self.start as int }
    open spec fn hi(&self, width: int) -> int { self.end as int }
}
impl VRange for RangeFrom<usize> {
    open spec fn lo(&self) -> int { self.start as int }
    open spec fn hi(&self, width: int) -> int { width }
}
impl VRange for RangeTo<usize> {
    open spec fn lo(&self) -> int { 0 }
    open spec fn hi(&self, width: int) -> int { self.end as int }
}

pub open spec fn mask_u64(lo: int, hi: int) -> u64
    recommends 0 <= lo < hi <= 64
{
    // bits lo..hi set
    let len = (hi - lo) as u64;
    let m: u64 = if len >= 64 { 0xffff_ffff_ffff_ffffu64 } else { sub(1u64 << len, 1) };
    m << (lo as u64)
}

pub open spec fn get_bits_u64(v: u64, lo: int, hi: int) -> u64 {
    (v & mask_u64(lo, hi)) >> (lo as u64)
}

pub open spec fn set_bits_u64(v: u64, lo: int, hi: int, val: u64) -> u64 {
    (v & !mask_u64(lo, hi)) | (val << (lo as u64))
}

pub trait BitField: Sized {
    spec fn bf_width() -> int;
    spec fn bf_get(self, lo: int, hi: int) -> Self;
    spec fn bf_set(self, lo: int, hi: int, val: Self) -> Self;
    spec fn bf_fits(val: Self, len: int) -> bool;
    spec fn bf_bit(self, i: int) -> bool;
    spec fn bf_set_bit(self, i: int, b: bool) -> Self;

    fn get_bit(&self, bit: usize) -> (r: bool)
        requires bit < Self::bf_width()
        ensures r == self.bf_bit(bit as int);
    fn get_bits<T: VRange>(&self, range: T) -> (r: Self)
        requires 0 <= range.lo() < range.hi(Self::bf_width()) <= Self::bf_width()
        ensures r == self.bf_get(range.lo(), range.hi(Self::bf_width()));
    fn set_bit(&mut self, bit: usize, value: bool) -> (r: &mut Self)
        requires bit < Self::bf_width()
        ensures *final(self) == old(self).bf_set_bit(bit as int, value);
    fn set_bits<T: VRange>(&mut self, range: T, value: Self) -> (r: &mut Self)
        requires
            0 <= range.lo() < range.hi(Self::bf_width()) <= Self::bf_width(),
            Self::bf_fits(value, range.hi(Self::bf_width()) - range.lo()),
        ensures *final(self) == old(self).bf_set(range.lo(), range.hi(Self::bf_width()), value);
}

impl BitField for u64 {
    open spec fn bf_width() -> int { 64 }
    open spec fn bf_get(self, lo: int, hi: int) -> u64 { get_bits_u64(self, lo, hi) }
    open spec fn bf_set(self, lo: int, hi: int, val: u64) -> u64 { set_bits_u64(self, lo, hi, val) }
    open spec fn bf_fits(val: u64, len: int) -> bool { len >= 64 || val < (1u64 << (len as u64)) }
    open spec fn bf_bit(self, i: int) -> bool { (self >> (i as u64)) & 1 == 1 }
    open spec fn bf_set_bit(self, i: int, b: bool) -> u64 {
        if b { self | (1u64 << (i as u64)) } else { self & !(1u64 << (i as u64)) }
    }
    #[verifier::external_body]
    fn get_bit(&self, bit: usize) -> (r: bool) { unimplemented!() }
    #[verifier::external_body]
    fn get_bits<T: VRange>(&self, range: T) -> (r: u64) { unimplemented!() }
    #[verifier::external_body]
    fn set_bit(&mut self, bit: usize, value: bool) -> (r: &mut u64) { unimplemented!() }
    #[verifier::external_body]
    fn set_bits<T: VRange>(&mut self, range: T, value: u64) -> (r: &mut u64) { unimplemented!() }
}
