//! Abstract x86_64 machine and the `hw_asm!` ISA table (E1, DESIGN.md 4.2).
//!
//! This file is copied into the scratch copy of the crate as
//! `src/verif_hw.rs` by `lib/stage.py`; every `asm!(` in the crate is renamed
//! to `crate::hw_asm!(` there.  It never becomes part of `/repo`.
//!
//! What is ASSUMED by every proof that goes through this file: the
//! per-instruction effects written below (taken from the Intel SDM / AMD APM),
//! that everything runs at CPL 0 (no privilege checks, no #GP/#UD modelling),
//! and that nothing but the modelled instructions touches the modelled state.
//!
//! The file compiles under Kani (`cfg(kani)`: nondeterministic values are
//! `kani::any()`) and natively (`not(kani)`: they come from `Machine::nondet`).
#![allow(missing_docs)]
#![allow(dead_code)]
#![allow(clippy::all)]

/// Capacity of the event log. A harness that makes the machine execute more
/// instructions than this sets `log_overflow`.
pub const LOG_CAP: usize = 8;

/// Instruction kinds recorded in the event log.
///
/// Operand convention (fields `a`, `b`, `c` of [`Event`]), unused ones are 0:
///
/// | kind | a | b | c |
/// |---|---|---|---|
/// | MovFromCr / MovFromDr | register number | value read | |
/// | MovToCr / MovToDr | register number | value written | |
/// | Rdmsr | ecx | eax (result) | edx (result) |
/// | Wrmsr | ecx | eax | edx |
/// | Xgetbv | ecx | eax (result) | edx (result) |
/// | Xsetbv | ecx | eax | edx |
/// | In | width in bits | port | value read (zero extended) |
/// | Out | width in bits | port | value written |
/// | Pushfq | value read | | |
/// | Popfq | value written | | |
/// | Invlpg | address | | |
/// | Invpcid | kind | pcid (descriptor qword 0) | address (descriptor qword 1) |
/// | Invlpgb | rax | ecx | edx |
/// | Lgdt / Lidt / Sgdt / Sidt | base | limit | address of the 10-byte operand |
/// | Ltr | selector | | |
/// | MovFromSeg / MovToSeg | segment id ([`SEG_CS`] ..) | selector | |
/// | SetCs (push sel; retfq) | selector | | |
/// | RdFsBase / RdGsBase / WrFsBase / WrGsBase | value | | |
/// | Stmxcsr / Ldmxcsr | value | address of the operand | |
/// | IntN | vector | | |
/// | Iretq | rip | cs | rflags (rsp, ss are in the next event `IretqStack`) |
/// | IretqStack | rsp | ss | |
/// | ReadRip | value returned | | |
/// | Sti Cli Hlt Nop Int3 Swapgs Tlbsync BochsBreak | | | |
/// | Unknown | | | |
#[derive(Debug, Clone, Copy, PartialEq, Eq)]
#[repr(u8)]
pub enum Kind {
    None = 0,
    MovFromCr,
    MovToCr,
    MovFromDr,
    MovToDr,
    Rdmsr,
    Wrmsr,
    Xgetbv,
    Xsetbv,
    In,
    Out,
    Sti,
    Cli,
    Hlt,
    Nop,
    Int3,
    IntN,
    Pushfq,
    Popfq,
    Invlpg,
    Invpcid,
    Invlpgb,
    Tlbsync,
    Lgdt,
    Lidt,
    Sgdt,
    Sidt,
    Ltr,
    MovFromSeg,
    MovToSeg,
    SetCs,
    Swapgs,
    RdFsBase,
    WrFsBase,
    RdGsBase,
    WrGsBase,
    Stmxcsr,
    Ldmxcsr,
    ReadRip,
    BochsBreak,
    Iretq,
    IretqStack,
    Unknown,
}

/// One executed instruction.
#[derive(Debug, Clone, Copy, PartialEq, Eq)]
pub struct Event {
    pub kind: Kind,
    pub a: u64,
    pub b: u64,
    pub c: u64,
    /// Sequence number of the `asm!` block the instruction was part of
    /// (1 for the first block executed after a reset).
    pub block: u32,
}

impl Event {
    pub const NONE: Event = Event {
        kind: Kind::None,
        a: 0,
        b: 0,
        c: 0,
        block: 0,
    };

    /// True if the event is `kind` with exactly these operands.
    #[inline]
    pub fn is(&self, kind: Kind, a: u64, b: u64, c: u64) -> bool {
        self.kind == kind && self.a == a && self.b == b && self.c == c
    }
}

pub const SEG_CS: u8 = 0;
pub const SEG_SS: u8 = 1;
pub const SEG_DS: u8 = 2;
pub const SEG_ES: u8 = 3;
pub const SEG_FS: u8 = 4;
pub const SEG_GS: u8 = 5;
pub const SEG_UNKNOWN: u8 = 0xff;

pub const MSR_FS_BASE: u32 = 0xC000_0100;
pub const MSR_GS_BASE: u32 = 0xC000_0101;
pub const MSR_KERNEL_GS_BASE: u32 = 0xC000_0102;

/// RFLAGS.IF
pub const RFLAGS_IF: u64 = 1 << 9;

/// The abstract machine.
#[derive(Debug, Clone, Copy)]
pub struct Machine {
    pub cr0: u64,
    pub cr2: u64,
    pub cr3: u64,
    pub cr4: u64,
    pub dr0: u64,
    pub dr1: u64,
    pub dr2: u64,
    pub dr3: u64,
    pub dr6: u64,
    pub dr7: u64,
    pub xcr0: u64,
    /// The one watched MSR. `rdmsr` of this index returns `msr_value`,
    /// `wrmsr` to it stores. Any other index (except the three base MSRs
    /// below) reads a fresh nondeterministic value and writes are only logged.
    pub msr_index: u32,
    pub msr_value: u64,
    pub rflags: u64,
    pub cs: u16,
    pub ss: u16,
    pub ds: u16,
    pub es: u16,
    pub fs: u16,
    pub gs: u16,
    /// Also reachable as MSR 0xC000_0100 / 0101 / 0102.
    pub fs_base: u64,
    pub gs_base: u64,
    pub kernel_gs_base: u64,
    pub mxcsr: u32,
    pub gdtr_base: u64,
    pub gdtr_limit: u16,
    pub idtr_base: u64,
    pub idtr_limit: u16,
    pub tr: u16,
    /// What the device answers to the next `in` (low bits are used).
    pub device_in: u32,
    /// Scratch general purpose registers used to bind explicit-register
    /// operands (`in("ecx") x`, `out("eax") y`). Havocked at the start of
    /// every block that binds explicit registers.
    pub rax: u64,
    pub rbx: u64,
    pub rcx: u64,
    pub rdx: u64,
    pub rsi: u64,
    pub rdi: u64,
    /// Source of "nondeterministic" values in native (non-Kani) builds.
    pub nondet: u64,
    /// Number of asm blocks executed so far.
    pub block_seq: u32,
    pub log: [Event; LOG_CAP],
    pub log_len: usize,
    pub log_overflow: bool,
    /// Set when an `asm!` site or operand form was reached that the table
    /// below does not know. The runner reports such a harness as UNDECIDED.
    pub unknown_asm_hit: bool,
    /// Instruction kind that must not execute (see [`set_trap`]);
    /// `Kind::None` (the state after every reset) = no trap.
    pub trap: Kind,
    /// `options(..)` bit mask of the asm! block being executed (see `set_opts`). Lives inside MACHINE because a
    /// separate `static mut` would be havocked by Kani in `proof_for_contract` harnesses.
    pub cur_opts: u8,
}

impl Machine {
    /// All zero, empty log.
    pub const fn zeroed() -> Machine {
        Machine {
            cr0: 0,
            cr2: 0,
            cr3: 0,
            cr4: 0,
            dr0: 0,
            dr1: 0,
            dr2: 0,
            dr3: 0,
            dr6: 0,
            dr7: 0,
            xcr0: 0,
            msr_index: 0,
            msr_value: 0,
            rflags: 0,
            cs: 0,
            ss: 0,
            ds: 0,
            es: 0,
            fs: 0,
            gs: 0,
            fs_base: 0,
            gs_base: 0,
            kernel_gs_base: 0,
            mxcsr: 0,
            gdtr_base: 0,
            gdtr_limit: 0,
            idtr_base: 0,
            idtr_limit: 0,
            tr: 0,
            device_in: 0,
            rax: 0,
            rbx: 0,
            rcx: 0,
            rdx: 0,
            rsi: 0,
            rdi: 0,
            nondet: 0,
            block_seq: 0,
            log: [Event::NONE; LOG_CAP],
            log_len: 0,
            log_overflow: false,
            unknown_asm_hit: false,
            trap: Kind::None,
            cur_opts: 0,
        }
    }

    /// Every register field nondeterministic, log empty.
    #[cfg(kani)]
    pub fn symbolic() -> Machine {
        let mut s = Machine::zeroed();
        s.cr0 = kani::any();
        s.cr2 = kani::any();
        s.cr3 = kani::any();
        s.cr4 = kani::any();
        s.dr0 = kani::any();
        s.dr1 = kani::any();
        s.dr2 = kani::any();
        s.dr3 = kani::any();
        s.dr6 = kani::any();
        s.dr7 = kani::any();
        s.xcr0 = kani::any();
        s.msr_index = kani::any();
        s.msr_value = kani::any();
        s.rflags = kani::any();
        s.cs = kani::any();
        s.ss = kani::any();
        s.ds = kani::any();
        s.es = kani::any();
        s.fs = kani::any();
        s.gs = kani::any();
        s.fs_base = kani::any();
        s.gs_base = kani::any();
        s.kernel_gs_base = kani::any();
        s.mxcsr = kani::any();
        s.gdtr_base = kani::any();
        s.gdtr_limit = kani::any();
        s.idtr_base = kani::any();
        s.idtr_limit = kani::any();
        s.tr = kani::any();
        s.device_in = kani::any();
        s.rax = kani::any();
        s.rbx = kani::any();
        s.rcx = kani::any();
        s.rdx = kani::any();
        s.rsi = kani::any();
        s.rdi = kani::any();
        s
    }

    /// The events logged so far.
    #[inline]
    pub fn events(&self) -> &[Event] {
        &self.log[..self.log_len]
    }

    /// Number of logged events of this kind (constant-bound loop).
    pub fn count(&self, kind: Kind) -> usize {
        let mut n = 0;
        let mut i = 0;
        while i < LOG_CAP {
            if i < self.log_len && self.log[i].kind == kind {
                n += 1;
            }
            i += 1;
        }
        n
    }

    /// Event `i`, or `Event::NONE` past the end.
    #[inline]
    pub fn event(&self, i: usize) -> Event {
        if i < self.log_len && i < LOG_CAP {
            self.log[i]
        } else {
            Event::NONE
        }
    }

    /// Forget the log (registers stay).
    pub fn clear_log(&mut self) {
        self.log = [Event::NONE; LOG_CAP];
        self.log_len = 0;
        self.log_overflow = false;
        self.block_seq = 0;
    }

    /// True if exactly one event was logged, of this kind and operands, and
    /// nothing overflowed or was unknown.
    pub fn only_event_is(&self, kind: Kind, a: u64, b: u64, c: u64) -> bool {
        self.log_len == 1
            && !self.log_overflow
            && !self.unknown_asm_hit
            && self.log[0].is(kind, a, b, c)
    }
}

/// The machine. Single-threaded use only.
pub static mut MACHINE: Machine = Machine::zeroed();

/// Access to the machine.
#[inline]
pub fn m() -> &'static mut Machine {
    // SAFETY: harnesses and replay binaries are single threaded.
    unsafe { &mut *core::ptr::addr_of_mut!(MACHINE) }
}

/// Install a fully symbolic machine state with an empty log.
#[cfg(kani)]
pub fn reset_symbolic() {
    *m() = Machine::symbolic();
}

/// Install an all-zero machine state with an empty log.
pub fn reset_zeroed() {
    *m() = Machine::zeroed();
}

/// The events logged so far.
#[inline]
pub fn events() -> &'static [Event] {
    m().events()
}

/// Number of logged events of this kind.
#[inline]
pub fn count(kind: Kind) -> usize {
    m().count(kind)
}

// ---------------------------------------------------------------------------
// frame conditions and the write trap (added for the C16 / C17 suites; purely
// additive: nothing above or below depends on them unless a harness uses them)

/// Bit numbers naming the architectural register fields of [`Machine`] in
/// [`Machine::regs_same_except`].
pub mod field {
    pub const CR0: u64 = 1 << 0;
    pub const CR2: u64 = 1 << 1;
    pub const CR3: u64 = 1 << 2;
    pub const CR4: u64 = 1 << 3;
    pub const DR0: u64 = 1 << 4;
    pub const DR1: u64 = 1 << 5;
    pub const DR2: u64 = 1 << 6;
    pub const DR3: u64 = 1 << 7;
    pub const DR6: u64 = 1 << 8;
    pub const DR7: u64 = 1 << 9;
    pub const XCR0: u64 = 1 << 10;
    /// `msr_index` and `msr_value` (the watched MSR cell)
    pub const MSR: u64 = 1 << 11;
    pub const RFLAGS: u64 = 1 << 12;
    pub const CS: u64 = 1 << 13;
    pub const SS: u64 = 1 << 14;
    pub const DS: u64 = 1 << 15;
    pub const ES: u64 = 1 << 16;
    pub const FS: u64 = 1 << 17;
    pub const GS: u64 = 1 << 18;
    pub const FS_BASE: u64 = 1 << 19;
    pub const GS_BASE: u64 = 1 << 20;
    pub const KERNEL_GS_BASE: u64 = 1 << 21;
    pub const MXCSR: u64 = 1 << 22;
    /// `gdtr_base` and `gdtr_limit`
    pub const GDTR: u64 = 1 << 23;
    /// `idtr_base` and `idtr_limit`
    pub const IDTR: u64 = 1 << 24;
    pub const TR: u64 = 1 << 25;
    pub const NONE: u64 = 0;
}

impl Machine {
    /// Frame condition: every architectural register field has the same value
    /// in `self` and in `before`, except the fields selected in `except`
    /// (an OR of [`field`] constants). `msr_index` is compared always (no
    /// instruction changes which MSR is watched). Not compared: the scratch
    /// general purpose registers, `device_in`, `nondet`, the log.
    pub fn regs_same_except(&self, before: &Machine, except: u64) -> bool {
        let x = |f: u64| except & f != 0;
        (x(field::CR0) || self.cr0 == before.cr0)
            && (x(field::CR2) || self.cr2 == before.cr2)
            && (x(field::CR3) || self.cr3 == before.cr3)
            && (x(field::CR4) || self.cr4 == before.cr4)
            && (x(field::DR0) || self.dr0 == before.dr0)
            && (x(field::DR1) || self.dr1 == before.dr1)
            && (x(field::DR2) || self.dr2 == before.dr2)
            && (x(field::DR3) || self.dr3 == before.dr3)
            && (x(field::DR6) || self.dr6 == before.dr6)
            && (x(field::DR7) || self.dr7 == before.dr7)
            && (x(field::XCR0) || self.xcr0 == before.xcr0)
            && self.msr_index == before.msr_index
            && (x(field::MSR) || self.msr_value == before.msr_value)
            && (x(field::RFLAGS) || self.rflags == before.rflags)
            && (x(field::CS) || self.cs == before.cs)
            && (x(field::SS) || self.ss == before.ss)
            && (x(field::DS) || self.ds == before.ds)
            && (x(field::ES) || self.es == before.es)
            && (x(field::FS) || self.fs == before.fs)
            && (x(field::GS) || self.gs == before.gs)
            && (x(field::FS_BASE) || self.fs_base == before.fs_base)
            && (x(field::GS_BASE) || self.gs_base == before.gs_base)
            && (x(field::KERNEL_GS_BASE) || self.kernel_gs_base == before.kernel_gs_base)
            && (x(field::MXCSR) || self.mxcsr == before.mxcsr)
            && (x(field::GDTR)
                || (self.gdtr_base == before.gdtr_base && self.gdtr_limit == before.gdtr_limit))
            && (x(field::IDTR)
                || (self.idtr_base == before.idtr_base && self.idtr_limit == before.idtr_limit))
            && (x(field::TR) || self.tr == before.tr)
    }

    /// The log holds exactly these two events (in this order), nothing
    /// overflowed and nothing unknown was executed.
    pub fn only_events_are(&self, e0: (Kind, u64, u64, u64), e1: (Kind, u64, u64, u64)) -> bool {
        self.log_len == 2
            && !self.log_overflow
            && !self.unknown_asm_hit
            && self.log[0].is(e0.0, e0.1, e0.2, e0.3)
            && self.log[1].is(e1.0, e1.1, e1.2, e1.3)
    }
}

/// Arm the write trap: from now on, executing an instruction of this kind
/// reaches [`trap_hit`]. Used by "rejected WITHOUT WRITING" harnesses, which
/// run under `#[kani::should_panic]` and therefore cannot look at the log
/// after the panic: under Kani `trap_hit` is a check of class `unreachable`
/// (not `assertion`), so a should_panic harness in which the trapped
/// instruction executes on any path FAILS ("failures other than panics").
/// `Kind::None` disarms. The trap lives in [`Machine::trap`] (not in a
/// separate static: Kani havocs `static mut`s in `proof_for_contract`
/// harnesses), so `reset_symbolic()` / `reset_zeroed()` disarm it: arm it
/// AFTER the reset.
pub fn set_trap(kind: Kind) {
    m().trap = kind;
}

/// Reached when the trapped instruction kind executes.
#[inline(never)]
pub fn trap_hit() {
    #[cfg(kani)]
    // SAFETY: deliberately "unreachable": Kani reports reaching it as a
    // failed check of class `unreachable`.
    unsafe {
        core::hint::unreachable_unchecked()
    }
    #[cfg(not(kani))]
    panic!("VERIF-TRAP: a trapped instruction kind was executed");
}

// ---------------------------------------------------------------------------
// nondeterminism

#[cfg(kani)]
#[inline]
pub fn nondet_u64() -> u64 {
    kani::any()
}

#[cfg(not(kani))]
#[inline]
pub fn nondet_u64() -> u64 {
    m().nondet
}

// ---------------------------------------------------------------------------
// operand values

/// Integer types that can be bound to a register operand.
pub trait HwVal: Copy {
    const BITS: u32;
    /// Zero-extended bit pattern.
    fn to_u64(self) -> u64;
    /// Truncating conversion.
    fn from_u64(v: u64) -> Self;
}

macro_rules! verif_hw_impl_hwval {
    ($($t:ty => $u:ty),* $(,)?) => {$(
        impl HwVal for $t {
            const BITS: u32 = <$u>::BITS;
            #[inline]
            fn to_u64(self) -> u64 { self as $u as u64 }
            #[inline]
            fn from_u64(v: u64) -> Self { v as $u as $t }
        }
    )*};
}
verif_hw_impl_hwval!(u8 => u8, u16 => u16, u32 => u32, u64 => u64, usize => usize,
                     i8 => u8, i16 => u16, i32 => u32, i64 => u64, isize => usize);

#[inline]
pub fn to_u64<T: HwVal>(v: T) -> u64 {
    v.to_u64()
}

#[inline]
fn mask(bits: u32) -> u64 {
    if bits >= 64 {
        u64::MAX
    } else {
        (1u64 << bits) - 1
    }
}

/// A named general purpose register: index into the scratch file and width.
#[derive(Debug, Clone, Copy, PartialEq, Eq)]
pub struct Reg {
    /// 0 rax, 1 rbx, 2 rcx, 3 rdx, 4 rsi, 5 rdi, 0xff unknown
    pub idx: u8,
    pub bits: u8,
}

const fn str_eq(a: &str, b: &str) -> bool {
    let a = a.as_bytes();
    let b = b.as_bytes();
    if a.len() != b.len() {
        return false;
    }
    let mut i = 0;
    while i < a.len() {
        if a[i] != b[i] {
            return false;
        }
        i += 1;
    }
    true
}

/// Resolve an explicit register name as written in an operand
/// (`in("ecx") ..`). Evaluated at compile time by the `hw_asm!` arms.
pub const fn reg_by_name(name: &str) -> Reg {
    const TABLE: [(&str, u8, u8); 24] = [
        ("rax", 0, 64),
        ("eax", 0, 32),
        ("ax", 0, 16),
        ("al", 0, 8),
        ("rbx", 1, 64),
        ("ebx", 1, 32),
        ("bx", 1, 16),
        ("bl", 1, 8),
        ("rcx", 2, 64),
        ("ecx", 2, 32),
        ("cx", 2, 16),
        ("cl", 2, 8),
        ("rdx", 3, 64),
        ("edx", 3, 32),
        ("dx", 3, 16),
        ("dl", 3, 8),
        ("rsi", 4, 64),
        ("esi", 4, 32),
        ("si", 4, 16),
        ("sil", 4, 8),
        ("rdi", 5, 64),
        ("edi", 5, 32),
        ("di", 5, 16),
        ("dil", 5, 8),
    ];
    let mut i = 0;
    while i < TABLE.len() {
        if str_eq(TABLE[i].0, name) {
            return Reg {
                idx: TABLE[i].1,
                bits: TABLE[i].2,
            };
        }
        i += 1;
    }
    Reg { idx: 0xff, bits: 0 }
}

/// Resolve a segment register name used in the crate's `concat!` templates.
pub const fn seg_by_name(name: &str) -> u8 {
    if str_eq(name, "cs") {
        SEG_CS
    } else if str_eq(name, "ss") {
        SEG_SS
    } else if str_eq(name, "ds") {
        SEG_DS
    } else if str_eq(name, "es") {
        SEG_ES
    } else if str_eq(name, "fs") {
        SEG_FS
    } else if str_eq(name, "gs") {
        SEG_GS
    } else {
        SEG_UNKNOWN
    }
}

/// Resolve `crN` / `drN` names used in the crate's `concat!` templates:
/// returns (class, number) with class 0 = control, 1 = debug, 0xff unknown.
pub const fn sysreg_by_name(name: &str) -> (u8, u8) {
    let b = name.as_bytes();
    if b.len() == 3 && b[1] == b'r' && b[2] >= b'0' && b[2] <= b'9' {
        let n = b[2] - b'0';
        if b[0] == b'c' {
            return (0, n);
        }
        if b[0] == b'd' {
            return (1, n);
        }
    }
    (0xff, 0)
}

fn reg_slot(idx: u8) -> Option<&'static mut u64> {
    let mm = m();
    match idx {
        0 => Some(&mut mm.rax),
        1 => Some(&mut mm.rbx),
        2 => Some(&mut mm.rcx),
        3 => Some(&mut mm.rdx),
        4 => Some(&mut mm.rsi),
        5 => Some(&mut mm.rdi),
        _ => None,
    }
}

/// Bind an input operand to an explicit register: the low
/// `min(register width, type width)` bits get the value, the rest keep the
/// (havocked) previous contents, as the bits above the operand are undefined.
pub fn reg_in<T: HwVal>(r: Reg, v: T) {
    match reg_slot(r.idx) {
        Some(slot) => {
            let w = if (r.bits as u32) < T::BITS {
                r.bits as u32
            } else {
                T::BITS
            };
            let k = mask(w);
            *slot = (*slot & !k) | (v.to_u64() & k);
        }
        None => unknown_asm(),
    }
}

/// Read an output operand from an explicit register.
pub fn reg_out<T: HwVal>(r: Reg) -> T {
    match reg_slot(r.idx) {
        Some(slot) => T::from_u64(*slot & mask(r.bits as u32)),
        None => {
            unknown_asm();
            T::from_u64(nondet_u64())
        }
    }
}

/// Value for an output operand of an asm form the table does not know.
pub fn unknown_out<T: HwVal>() -> T {
    T::from_u64(nondet_u64())
}

// ---------------------------------------------------------------------------
// log

/// Start of an asm block: new sequence number.
#[inline]
pub fn begin_block() {
    let mm = m();
    mm.block_seq = mm.block_seq.wrapping_add(1);
    set_opts(0);
}

// ---- asm!(.., options(..)) as part of the ISA table -------------------------
// The options of an asm! block are promises to the compiler. A promise that contradicts the architectural
// effect of the instruction lets the optimiser delete, merge or reorder it (e.g. `pure` on a port read), so
// that "exactly one access" no longer holds in an optimised build. The table below (ASSUMED, from the Rust
// reference and the ISA manuals) lists which promises are false for which instruction kind.
pub const OPT_PURE: u8 = 1;
pub const OPT_NOMEM: u8 = 2;
pub const OPT_READONLY: u8 = 4;
pub const OPT_NOSTACK: u8 = 8;
pub const OPT_PRESERVES_FLAGS: u8 = 16;
pub const OPT_NORETURN: u8 = 32;

/// Options of the asm! block being executed (set by `hw_asm!` before the instruction functions run).
pub fn set_opts(mask: u8) {
    m().cur_opts = mask;
}

fn cur_opts() -> u8 {
    m().cur_opts
}

/// Option bits that are FALSE promises for an instruction of this kind.
pub const fn forbidden_opts(kind: Kind) -> u8 {
    match kind {
        // memory-reading operands: lgdt/lidt [ptr], invpcid descriptor, ldmxcsr [ptr]
        Kind::Lgdt | Kind::Lidt | Kind::Invpcid | Kind::Ldmxcsr => OPT_PURE | OPT_NOMEM,
        // memory-writing operands: sgdt/sidt/stmxcsr [ptr]
        Kind::Sgdt | Kind::Sidt | Kind::Stmxcsr => OPT_PURE | OPT_NOMEM | OPT_READONLY,
        // use the stack
        Kind::Pushfq => OPT_PURE | OPT_NOSTACK,
        // (`preserves_flags` on `push {}; popfq` is a documented, deliberate HACK of rflags::write_raw: not forbidden)
        Kind::Popfq => OPT_PURE | OPT_NOSTACK,
        Kind::SetCs | Kind::Iretq | Kind::IretqStack => OPT_PURE | OPT_NOSTACK,
        // every other instruction of this crate either has a side effect or reads state that other
        // instructions change: never `pure`
        _ => OPT_PURE,
    }
}

/// `sti` / `cli` as a block of their own delimit a critical section (interrupts.rs: "Omit `nomem`
/// to imitate a lock release / acquire. Otherwise, the compiler is free to move reads and writes
/// through this asm block"): `nomem` or `readonly` there lets the compiler move the memory
/// accesses of a `without_interrupts` closure out of the section (C17: the closure runs with the
/// flag clear). `sti; hlt` is a different block and keeps its `nomem`.
pub fn check_barrier_opts() {
    let bad = cur_opts() & (OPT_NOMEM | OPT_READONLY);
    if bad != 0 {
        #[cfg(kani)]
        kani::assert(false, "VERIF-ASM-OPTIONS: nomem / readonly on a standalone sti / cli: the block no longer orders the memory accesses of the critical section");
        #[cfg(not(kani))]
        panic!("VERIF-ASM-OPTIONS: asm options contradict the instruction");
    }
}

fn check_opts(kind: Kind) {
    let bad = cur_opts() & forbidden_opts(kind);
    if bad != 0 {
        #[cfg(kani)]
        kani::assert(false, "VERIF-ASM-OPTIONS: an option of this asm! block (pure / nomem / readonly / nostack / preserves_flags) contradicts the architectural effect of the instruction");
        #[cfg(not(kani))]
        panic!("VERIF-ASM-OPTIONS: asm options contradict the instruction");
    }
}

/// Start of an asm block that binds explicit registers: new sequence number
/// and all scratch registers unknown.
pub fn begin_block_regs() {
    begin_block();
    let mm = m();
    mm.rax = nondet_u64();
    mm.rbx = nondet_u64();
    mm.rcx = nondet_u64();
    mm.rdx = nondet_u64();
    mm.rsi = nondet_u64();
    mm.rdi = nondet_u64();
}

/// Append an event to the log.
pub fn log(kind: Kind, a: u64, b: u64, c: u64) {
    check_opts(kind);
    let mm = m();
    // write trap (see `set_trap`); never taken unless a harness armed it
    if mm.trap as u8 != 0 && mm.trap as u8 == kind as u8 {
        trap_hit();
    }
    if mm.log_len < LOG_CAP {
        let i = mm.log_len;
        mm.log[i] = Event {
            kind,
            a,
            b,
            c,
            block: mm.block_seq,
        };
        mm.log_len = i + 1;
    } else {
        mm.log_overflow = true;
    }
}

/// An asm template or operand form that no arm of `hw_asm!` knows.
///
/// Marker protocol with `lib/kani_run.py`: under Kani this emits a cover
/// property whose description starts with `VERIF-UNKNOWN-ASM`. If Kani
/// reports that property SATISFIED for a harness, the harness reached code
/// the ISA table cannot judge and the runner reports UNDECIDED whatever the
/// other checks say.
pub fn unknown_asm() {
    let mm = m();
    mm.unknown_asm_hit = true;
    #[cfg(kani)]
    kani::cover!(true, "VERIF-UNKNOWN-ASM reached");
    log(Kind::Unknown, 0, 0, 0);
}

// ---------------------------------------------------------------------------
// instructions with operands in the generic `reg` class

pub fn mov_from_cr(n: u8) -> u64 {
    let mm = m();
    let v = match n {
        0 => mm.cr0,
        2 => mm.cr2,
        3 => mm.cr3,
        4 => mm.cr4,
        _ => {
            unknown_asm();
            nondet_u64()
        }
    };
    log(Kind::MovFromCr, n as u64, v, 0);
    v
}

pub fn mov_to_cr(n: u8, v: u64) {
    let mm = m();
    match n {
        0 => mm.cr0 = v,
        2 => mm.cr2 = v,
        3 => mm.cr3 = v,
        4 => mm.cr4 = v,
        _ => unknown_asm(),
    }
    log(Kind::MovToCr, n as u64, v, 0);
}

pub fn mov_from_dr(n: u8) -> u64 {
    let mm = m();
    let v = match n {
        0 => mm.dr0,
        1 => mm.dr1,
        2 => mm.dr2,
        3 => mm.dr3,
        6 => mm.dr6,
        7 => mm.dr7,
        _ => {
            unknown_asm();
            nondet_u64()
        }
    };
    log(Kind::MovFromDr, n as u64, v, 0);
    v
}

pub fn mov_to_dr(n: u8, v: u64) {
    let mm = m();
    match n {
        0 => mm.dr0 = v,
        1 => mm.dr1 = v,
        2 => mm.dr2 = v,
        3 => mm.dr3 = v,
        6 => mm.dr6 = v,
        7 => mm.dr7 = v,
        _ => unknown_asm(),
    }
    log(Kind::MovToDr, n as u64, v, 0);
}

/// `mov {}, <name>` with the name resolved by [`sysreg_by_name`].
pub fn mov_from_sysreg(r: (u8, u8)) -> u64 {
    match r.0 {
        0 => mov_from_cr(r.1),
        1 => mov_from_dr(r.1),
        _ => {
            unknown_asm();
            nondet_u64()
        }
    }
}

/// `mov <name>, {}` with the name resolved by [`sysreg_by_name`].
pub fn mov_to_sysreg(r: (u8, u8), v: u64) {
    match r.0 {
        0 => mov_to_cr(r.1, v),
        1 => mov_to_dr(r.1, v),
        _ => unknown_asm(),
    }
}

pub fn mov_from_seg(seg: u8) -> u16 {
    let mm = m();
    let v = match seg {
        SEG_CS => mm.cs,
        SEG_SS => mm.ss,
        SEG_DS => mm.ds,
        SEG_ES => mm.es,
        SEG_FS => mm.fs,
        SEG_GS => mm.gs,
        _ => {
            unknown_asm();
            nondet_u64() as u16
        }
    };
    log(Kind::MovFromSeg, seg as u64, v as u64, 0);
    v
}

/// `mov <seg>, r16`. (`mov cs, r` raises #UD on hardware; not modelled, the
/// crate never emits it.)
pub fn mov_to_seg(seg: u8, v: u16) {
    let mm = m();
    match seg {
        SEG_SS => mm.ss = v,
        SEG_DS => mm.ds = v,
        SEG_ES => mm.es = v,
        SEG_FS => mm.fs = v,
        SEG_GS => mm.gs = v,
        _ => unknown_asm(),
    }
    log(Kind::MovToSeg, seg as u64, v as u64, 0);
}

/// `push sel; lea tmp,[rip+1f]; push tmp; retfq; 1:` - far return that
/// reloads CS and continues at the next instruction.
pub fn set_cs(sel: u16) {
    m().cs = sel;
    log(Kind::SetCs, sel as u64, 0, 0);
}

/// `rdfsbase` / `rdgsbase`
pub fn rd_seg_base(seg: u8) -> u64 {
    let mm = m();
    match seg {
        SEG_FS => {
            let v = mm.fs_base;
            log(Kind::RdFsBase, v, 0, 0);
            v
        }
        SEG_GS => {
            let v = mm.gs_base;
            log(Kind::RdGsBase, v, 0, 0);
            v
        }
        _ => {
            unknown_asm();
            nondet_u64()
        }
    }
}

/// `wrfsbase` / `wrgsbase`
pub fn wr_seg_base(seg: u8, v: u64) {
    let mm = m();
    match seg {
        SEG_FS => {
            mm.fs_base = v;
            log(Kind::WrFsBase, v, 0, 0);
        }
        SEG_GS => {
            mm.gs_base = v;
            log(Kind::WrGsBase, v, 0, 0);
        }
        _ => unknown_asm(),
    }
}

pub fn swapgs() {
    let mm = m();
    let t = mm.gs_base;
    mm.gs_base = mm.kernel_gs_base;
    mm.kernel_gs_base = t;
    log(Kind::Swapgs, 0, 0, 0);
}

pub fn sti() {
    m().rflags |= RFLAGS_IF;
    log(Kind::Sti, 0, 0, 0);
}

pub fn cli() {
    m().rflags &= !RFLAGS_IF;
    log(Kind::Cli, 0, 0, 0);
}

pub fn hlt() {
    log(Kind::Hlt, 0, 0, 0);
}

pub fn nop() {
    log(Kind::Nop, 0, 0, 0);
}

pub fn bochs_break() {
    log(Kind::BochsBreak, 0, 0, 0);
}

pub fn int3() {
    log(Kind::Int3, 0, 0, 0);
}

pub fn int_n(n: u8) {
    log(Kind::IntN, n as u64, 0, 0);
}

pub fn tlbsync() {
    log(Kind::Tlbsync, 0, 0, 0);
}

/// `pushfq; pop r`
pub fn pushfq_pop() -> u64 {
    let v = m().rflags;
    log(Kind::Pushfq, v, 0, 0);
    v
}

/// `push r; popfq` at CPL 0: every bit of the operand is stored. (Hardware
/// keeps VM/RF/VIF/VIP and forces bit 1; not modelled.)
pub fn push_popfq(v: u64) {
    m().rflags = v;
    log(Kind::Popfq, v, 0, 0);
}

/// `lea r, [rip]`: some canonical address (RIP is always canonical).
pub fn read_rip() -> u64 {
    let v = (((nondet_u64() << 16) as i64) >> 16) as u64;
    log(Kind::ReadRip, v, 0, 0);
    v
}

pub fn invlpg(addr: u64) {
    log(Kind::Invlpg, addr, 0, 0);
}

/// `invpcid r, [m128]`
///
/// # Safety
/// `desc` must point to 16 readable bytes.
pub unsafe fn invpcid(kind: u64, desc: *const u8) {
    // SAFETY: caller contract.
    let (q0, q1) = unsafe {
        (
            core::ptr::read_unaligned(desc as *const u64),
            core::ptr::read_unaligned(desc.add(8) as *const u64),
        )
    };
    log(Kind::Invpcid, kind, q0, q1);
}

/// Read a 10-byte pseudo descriptor (u16 limit, u64 base).
///
/// # Safety
/// `p` must point to 10 readable bytes.
unsafe fn read_dtp(p: *const u8) -> (u64, u16) {
    // SAFETY: caller contract.
    unsafe {
        let limit = core::ptr::read_unaligned(p as *const u16);
        let base = core::ptr::read_unaligned(p.add(2) as *const u64);
        (base, limit)
    }
}

/// # Safety
/// `p` must point to 10 writable bytes.
unsafe fn write_dtp(p: *mut u8, base: u64, limit: u16) {
    // SAFETY: caller contract.
    unsafe {
        core::ptr::write_unaligned(p as *mut u16, limit);
        core::ptr::write_unaligned(p.add(2) as *mut u64, base);
    }
}

/// # Safety
/// `p` must point to a 10-byte pseudo descriptor.
pub unsafe fn lgdt(p: *const u8) {
    // SAFETY: caller contract.
    let (base, limit) = unsafe { read_dtp(p) };
    let mm = m();
    mm.gdtr_base = base;
    mm.gdtr_limit = limit;
    log(Kind::Lgdt, base, limit as u64, p as usize as u64);
}

/// # Safety
/// `p` must point to a 10-byte pseudo descriptor.
pub unsafe fn lidt(p: *const u8) {
    // SAFETY: caller contract.
    let (base, limit) = unsafe { read_dtp(p) };
    let mm = m();
    mm.idtr_base = base;
    mm.idtr_limit = limit;
    log(Kind::Lidt, base, limit as u64, p as usize as u64);
}

/// # Safety
/// `p` must point to 10 writable bytes.
pub unsafe fn sgdt(p: *mut u8) {
    let mm = m();
    let (base, limit) = (mm.gdtr_base, mm.gdtr_limit);
    // SAFETY: caller contract.
    unsafe { write_dtp(p, base, limit) };
    log(Kind::Sgdt, base, limit as u64, p as usize as u64);
}

/// # Safety
/// `p` must point to 10 writable bytes.
pub unsafe fn sidt(p: *mut u8) {
    let mm = m();
    let (base, limit) = (mm.idtr_base, mm.idtr_limit);
    // SAFETY: caller contract.
    unsafe { write_dtp(p, base, limit) };
    log(Kind::Sidt, base, limit as u64, p as usize as u64);
}

pub fn ltr(sel: u16) {
    m().tr = sel;
    log(Kind::Ltr, sel as u64, 0, 0);
}

/// # Safety
/// `p` must point to 4 writable bytes.
pub unsafe fn stmxcsr(p: *mut u32) {
    let v = m().mxcsr;
    // SAFETY: caller contract.
    unsafe { core::ptr::write_unaligned(p, v) };
    log(Kind::Stmxcsr, v as u64, p as usize as u64, 0);
}

/// # Safety
/// `p` must point to 4 readable bytes.
pub unsafe fn ldmxcsr(p: *const u32) {
    // SAFETY: caller contract.
    let v = unsafe { core::ptr::read_unaligned(p) };
    m().mxcsr = v;
    log(Kind::Ldmxcsr, v as u64, p as usize as u64, 0);
}

/// `push ss; push rsp; push rflags; push cs; push rip; iretq`.
/// Loads the five registers, logs two events and does not return. The model
/// diverges by panicking with a message starting `VERIF-IRETQ`; a harness that
/// reaches it cannot inspect the machine afterwards (limitation).
pub fn iretq(rflags: u64, rip: u64, rsp: u64, cs: u16, ss: u16) -> ! {
    let mm = m();
    mm.rflags = rflags;
    mm.cs = cs;
    mm.ss = ss;
    log(Kind::Iretq, rip, cs as u64, rflags);
    log(Kind::IretqStack, rsp, ss as u64, 0);
    panic!("VERIF-IRETQ: control left the function through iretq")
}

// ---------------------------------------------------------------------------
// instructions with implicit register operands (use the scratch registers)

/// `rdmsr`: EDX:EAX := MSR[ECX]; the upper halves of RAX and RDX are cleared.
pub fn exec_rdmsr() {
    let mm = m();
    let idx = mm.rcx as u32;
    let v = if idx == MSR_FS_BASE {
        mm.fs_base
    } else if idx == MSR_GS_BASE {
        mm.gs_base
    } else if idx == MSR_KERNEL_GS_BASE {
        mm.kernel_gs_base
    } else if idx == mm.msr_index {
        mm.msr_value
    } else {
        nondet_u64()
    };
    mm.rax = v & 0xffff_ffff;
    mm.rdx = v >> 32;
    log(Kind::Rdmsr, idx as u64, mm.rax, mm.rdx);
}

/// `wrmsr`: MSR[ECX] := EDX:EAX (low halves of RDX, RAX).
pub fn exec_wrmsr() {
    let mm = m();
    let idx = mm.rcx as u32;
    let lo = mm.rax & 0xffff_ffff;
    let hi = mm.rdx & 0xffff_ffff;
    let v = (hi << 32) | lo;
    if idx == MSR_FS_BASE {
        mm.fs_base = v;
    } else if idx == MSR_GS_BASE {
        mm.gs_base = v;
    } else if idx == MSR_KERNEL_GS_BASE {
        mm.kernel_gs_base = v;
    } else if idx == mm.msr_index {
        mm.msr_value = v;
    }
    log(Kind::Wrmsr, idx as u64, lo, hi);
}

/// `xgetbv`: EDX:EAX := XCR[ECX]; only XCR0 is modelled.
pub fn exec_xgetbv() {
    let mm = m();
    let idx = mm.rcx as u32;
    let v = if idx == 0 { mm.xcr0 } else { nondet_u64() };
    mm.rax = v & 0xffff_ffff;
    mm.rdx = v >> 32;
    log(Kind::Xgetbv, idx as u64, mm.rax, mm.rdx);
}

/// `xsetbv`: XCR[ECX] := EDX:EAX.
pub fn exec_xsetbv() {
    let mm = m();
    let idx = mm.rcx as u32;
    let lo = mm.rax & 0xffff_ffff;
    let hi = mm.rdx & 0xffff_ffff;
    if idx == 0 {
        mm.xcr0 = (hi << 32) | lo;
    }
    log(Kind::Xsetbv, idx as u64, lo, hi);
}

/// `invlpgb`: operands in RAX, ECX, EDX.
pub fn exec_invlpgb() {
    let mm = m();
    log(
        Kind::Invlpgb,
        mm.rax,
        mm.rcx & 0xffff_ffff,
        mm.rdx & 0xffff_ffff,
    );
}

/// `in al|ax|eax, dx`
pub fn exec_in(bits: u32) {
    let mm = m();
    let port = mm.rdx & 0xffff;
    let v = (mm.device_in as u64) & mask(bits);
    mm.rax = match bits {
        // a 32-bit destination zero-extends into the full register
        32 => v,
        _ => (mm.rax & !mask(bits)) | v,
    };
    log(Kind::In, bits as u64, port, v);
}

/// `out dx, al|ax|eax`
pub fn exec_out(bits: u32) {
    let mm = m();
    let port = mm.rdx & 0xffff;
    let v = mm.rax & mask(bits);
    log(Kind::Out, bits as u64, port, v);
}

// ---------------------------------------------------------------------------
// the ISA table

/// Replacement for `core::arch::asm!` in the scratch copy.
///
/// Arms are keyed on the template string literal(s) and the operand list as
/// written at the site. Operands bound to explicit registers are handled by
/// the `@ins` / `@outs` binders, so which Rust value goes to which register
/// comes from the source text. Anything else lands in the last arm.
#[macro_export]
macro_rules! hw_opts {
    () => { 0u8 };
    (, $($r:tt)*) => { $crate::hw_opts!($($r)*) };
    (pure $($r:tt)*) => { (1u8 | $crate::hw_opts!($($r)*)) };
    (nomem $($r:tt)*) => { (2u8 | $crate::hw_opts!($($r)*)) };
    (readonly $($r:tt)*) => { (4u8 | $crate::hw_opts!($($r)*)) };
    (nostack $($r:tt)*) => { (8u8 | $crate::hw_opts!($($r)*)) };
    (preserves_flags $($r:tt)*) => { (16u8 | $crate::hw_opts!($($r)*)) };
    (noreturn $($r:tt)*) => { (32u8 | $crate::hw_opts!($($r)*)) };
    ($other:tt $($r:tt)*) => { $crate::hw_opts!($($r)*) };
}

#[macro_export]
macro_rules! hw_asm {
    // ---- binders for explicit-register operand lists (internal) ----------
    // `@ins`: move every `in("r") e` / `inout("r") e` into the scratch file.
    (@ins) => {};
    (@ins , $($rest:tt)*) => { $crate::hw_asm!(@ins $($rest)*); };
    (@ins in($r:literal) $e:expr , $($rest:tt)*) => {
        $crate::verif_hw::reg_in({ const R: $crate::verif_hw::Reg = $crate::verif_hw::reg_by_name($r); R }, $e);
        $crate::hw_asm!(@ins $($rest)*);
    };
    (@ins inout($r:literal) $e:expr => $v:ident , $($rest:tt)*) => {
        $crate::verif_hw::reg_in({ const R: $crate::verif_hw::Reg = $crate::verif_hw::reg_by_name($r); R }, $e);
        $crate::hw_asm!(@ins $($rest)*);
    };
    (@ins inout($r:literal) $e:expr => _ , $($rest:tt)*) => {
        $crate::verif_hw::reg_in({ const R: $crate::verif_hw::Reg = $crate::verif_hw::reg_by_name($r); R }, $e);
        $crate::hw_asm!(@ins $($rest)*);
    };
    (@ins inlateout($r:literal) $e:expr => $v:ident , $($rest:tt)*) => {
        $crate::verif_hw::reg_in({ const R: $crate::verif_hw::Reg = $crate::verif_hw::reg_by_name($r); R }, $e);
        $crate::hw_asm!(@ins $($rest)*);
    };
    (@ins inout($r:literal) $v:ident , $($rest:tt)*) => {
        $crate::verif_hw::reg_in({ const R: $crate::verif_hw::Reg = $crate::verif_hw::reg_by_name($r); R }, $v);
        $crate::hw_asm!(@ins $($rest)*);
    };
    (@ins out($r:literal) $v:ident , $($rest:tt)*) => { $crate::hw_asm!(@ins $($rest)*); };
    (@ins out($r:literal) _ , $($rest:tt)*) => { $crate::hw_asm!(@ins $($rest)*); };
    (@ins lateout($r:literal) $v:ident , $($rest:tt)*) => { $crate::hw_asm!(@ins $($rest)*); };
    (@ins lateout($r:literal) _ , $($rest:tt)*) => { $crate::hw_asm!(@ins $($rest)*); };
    (@ins options($($o:tt)*) , $($rest:tt)*) => { $crate::verif_hw::set_opts($crate::hw_opts!($($o)*)); $crate::hw_asm!(@ins $($rest)*); };
    (@ins $($other:tt)+) => { $crate::verif_hw::unknown_asm(); };

    // `@outs`: assign every `out("r") v` / `inout` from the scratch file.
    (@outs) => {};
    (@outs , $($rest:tt)*) => { $crate::hw_asm!(@outs $($rest)*); };
    (@outs in($r:literal) $e:expr , $($rest:tt)*) => { $crate::hw_asm!(@outs $($rest)*); };
    (@outs out($r:literal) $v:ident , $($rest:tt)*) => {
        $v = $crate::verif_hw::reg_out({ const R: $crate::verif_hw::Reg = $crate::verif_hw::reg_by_name($r); R });
        $crate::hw_asm!(@outs $($rest)*);
    };
    (@outs lateout($r:literal) $v:ident , $($rest:tt)*) => {
        $v = $crate::verif_hw::reg_out({ const R: $crate::verif_hw::Reg = $crate::verif_hw::reg_by_name($r); R });
        $crate::hw_asm!(@outs $($rest)*);
    };
    (@outs inout($r:literal) $e:expr => $v:ident , $($rest:tt)*) => {
        $v = $crate::verif_hw::reg_out({ const R: $crate::verif_hw::Reg = $crate::verif_hw::reg_by_name($r); R });
        $crate::hw_asm!(@outs $($rest)*);
    };
    (@outs inlateout($r:literal) $e:expr => $v:ident , $($rest:tt)*) => {
        $v = $crate::verif_hw::reg_out({ const R: $crate::verif_hw::Reg = $crate::verif_hw::reg_by_name($r); R });
        $crate::hw_asm!(@outs $($rest)*);
    };
    (@outs inout($r:literal) $e:expr => _ , $($rest:tt)*) => { $crate::hw_asm!(@outs $($rest)*); };
    (@outs inout($r:literal) $v:ident , $($rest:tt)*) => {
        $v = $crate::verif_hw::reg_out({ const R: $crate::verif_hw::Reg = $crate::verif_hw::reg_by_name($r); R });
        $crate::hw_asm!(@outs $($rest)*);
    };
    (@outs out($r:literal) _ , $($rest:tt)*) => { $crate::hw_asm!(@outs $($rest)*); };
    (@outs lateout($r:literal) _ , $($rest:tt)*) => { $crate::hw_asm!(@outs $($rest)*); };
    (@outs options($($o:tt)*) , $($rest:tt)*) => { $crate::hw_asm!(@outs $($rest)*); };
    (@outs $($other:tt)+) => { $crate::hw_asm!(@unk $($other)+); };

    // `@unk`: unknown form; give every recognisable output operand an
    // unconstrained value so the code after the site still compiles.
    (@unk) => {};
    (@unk out($($r:tt)*) $v:ident $($rest:tt)*) => {
        $v = $crate::verif_hw::unknown_out();
        $crate::hw_asm!(@unk $($rest)*);
    };
    (@unk lateout($($r:tt)*) $v:ident $($rest:tt)*) => {
        $v = $crate::verif_hw::unknown_out();
        $crate::hw_asm!(@unk $($rest)*);
    };
    (@unk => $v:ident $($rest:tt)*) => {
        $v = $crate::verif_hw::unknown_out();
        $crate::hw_asm!(@unk $($rest)*);
    };
    (@unk $t:tt $($rest:tt)*) => { $crate::hw_asm!(@unk $($rest)*); };

    // `@x`: an instruction with implicit register operands.
    (@x $f:ident ( $($a:expr),* ) ; $($ops:tt)*) => {{
        $crate::verif_hw::begin_block_regs();
        $crate::hw_asm!(@ins $($ops)* ,);
        $crate::verif_hw::$f($($a),*);
        $crate::hw_asm!(@outs $($ops)* ,);
    }};

    // ---- instructions with implicit register operands ---------------------
    // model_specific.rs Msr::read / Msr::write
    ("rdmsr", $($ops:tt)*) => { $crate::hw_asm!(@x exec_rdmsr(); $($ops)*) };
    ("wrmsr", $($ops:tt)*) => { $crate::hw_asm!(@x exec_wrmsr(); $($ops)*) };
    // xcontrol.rs XCr0::read_raw / write_raw
    ("xgetbv", $($ops:tt)*) => { $crate::hw_asm!(@x exec_xgetbv(); $($ops)*) };
    ("xsetbv", $($ops:tt)*) => { $crate::hw_asm!(@x exec_xsetbv(); $($ops)*) };
    // tlb.rs flush_broadcast
    ("invlpgb", $($ops:tt)*) => { $crate::hw_asm!(@x exec_invlpgb(); $($ops)*) };
    // port.rs PortRead / PortWrite
    ("in al, dx", $($ops:tt)*) => { $crate::hw_asm!(@x exec_in(8); $($ops)*) };
    ("in ax, dx", $($ops:tt)*) => { $crate::hw_asm!(@x exec_in(16); $($ops)*) };
    ("in eax, dx", $($ops:tt)*) => { $crate::hw_asm!(@x exec_in(32); $($ops)*) };
    ("out dx, al", $($ops:tt)*) => { $crate::hw_asm!(@x exec_out(8); $($ops)*) };
    ("out dx, ax", $($ops:tt)*) => { $crate::hw_asm!(@x exec_out(16); $($ops)*) };
    ("out dx, eax", $($ops:tt)*) => { $crate::hw_asm!(@x exec_out(32); $($ops)*) };

    // ---- no operands ---------------------------------------------------------
    // interrupts.rs
    ("sti" $(, options($($o:tt)*))? $(,)?) => {{ $crate::verif_hw::begin_block(); $crate::verif_hw::set_opts($crate::hw_opts!($($($o)*)?)); $crate::verif_hw::check_barrier_opts(); $crate::verif_hw::sti(); }};
    ("cli" $(, options($($o:tt)*))? $(,)?) => {{ $crate::verif_hw::begin_block(); $crate::verif_hw::set_opts($crate::hw_opts!($($($o)*)?)); $crate::verif_hw::check_barrier_opts(); $crate::verif_hw::cli(); }};
    ("sti; hlt" $(, options($($o:tt)*))? $(,)?) => {{ $crate::verif_hw::begin_block(); $crate::verif_hw::set_opts($crate::hw_opts!($($($o)*)?)); $crate::verif_hw::sti(); $crate::verif_hw::hlt(); }};
    ("int3" $(, options($($o:tt)*))? $(,)?) => {{ $crate::verif_hw::begin_block(); $crate::verif_hw::set_opts($crate::hw_opts!($($($o)*)?)); $crate::verif_hw::int3(); }};
    ("int {num}", num = const $n:expr $(, options($($o:tt)*))? $(,)?) => {{ $crate::verif_hw::begin_block(); $crate::verif_hw::set_opts($crate::hw_opts!($($($o)*)?)); $crate::verif_hw::int_n(($n) as u8); }};
    // instructions/mod.rs
    ("hlt" $(, options($($o:tt)*))? $(,)?) => {{ $crate::verif_hw::begin_block(); $crate::verif_hw::set_opts($crate::hw_opts!($($($o)*)?)); $crate::verif_hw::hlt(); }};
    ("nop" $(, options($($o:tt)*))? $(,)?) => {{ $crate::verif_hw::begin_block(); $crate::verif_hw::set_opts($crate::hw_opts!($($($o)*)?)); $crate::verif_hw::nop(); }};
    ("xchg bx, bx" $(, options($($o:tt)*))? $(,)?) => {{ $crate::verif_hw::begin_block(); $crate::verif_hw::set_opts($crate::hw_opts!($($($o)*)?)); $crate::verif_hw::bochs_break(); }};
    ("lea {}, [rip]", out(reg) $v:ident $(, options($($o:tt)*))? $(,)?) => {{ $crate::verif_hw::begin_block(); $crate::verif_hw::set_opts($crate::hw_opts!($($($o)*)?)); $v = $crate::verif_hw::read_rip(); }};
    // segmentation.rs
    ("swapgs" $(, options($($o:tt)*))? $(,)?) => {{ $crate::verif_hw::begin_block(); $crate::verif_hw::set_opts($crate::hw_opts!($($($o)*)?)); $crate::verif_hw::swapgs(); }};
    // tlb.rs
    ("tlbsync" $(, options($($o:tt)*))? $(,)?) => {{ $crate::verif_hw::begin_block(); $crate::verif_hw::set_opts($crate::hw_opts!($($($o)*)?)); $crate::verif_hw::tlbsync(); }};
    ("invlpg [{}]", in(reg) $a:expr $(, options($($o:tt)*))? $(,)?) => {{
        $crate::verif_hw::begin_block(); $crate::verif_hw::set_opts($crate::hw_opts!($($($o)*)?));
        $crate::verif_hw::invlpg($crate::verif_hw::to_u64($a));
    }};
    ("invpcid {0}, [{1}]", in(reg) $k:expr, in(reg) $d:expr $(, options($($o:tt)*))? $(,)?) => {{
        $crate::verif_hw::begin_block(); $crate::verif_hw::set_opts($crate::hw_opts!($($($o)*)?));
        $crate::verif_hw::invpcid($crate::verif_hw::to_u64($k), $d as *const _ as *const u8);
    }};

    // ---- control registers (control.rs) --------------------------------------
    ("mov {}, cr0", out(reg) $v:ident $(, options($($o:tt)*))? $(,)?) => {{ $crate::verif_hw::begin_block(); $crate::verif_hw::set_opts($crate::hw_opts!($($($o)*)?)); $v = $crate::verif_hw::mov_from_cr(0); }};
    ("mov {}, cr2", out(reg) $v:ident $(, options($($o:tt)*))? $(,)?) => {{ $crate::verif_hw::begin_block(); $crate::verif_hw::set_opts($crate::hw_opts!($($($o)*)?)); $v = $crate::verif_hw::mov_from_cr(2); }};
    ("mov {}, cr3", out(reg) $v:ident $(, options($($o:tt)*))? $(,)?) => {{ $crate::verif_hw::begin_block(); $crate::verif_hw::set_opts($crate::hw_opts!($($($o)*)?)); $v = $crate::verif_hw::mov_from_cr(3); }};
    ("mov {}, cr4", out(reg) $v:ident $(, options($($o:tt)*))? $(,)?) => {{ $crate::verif_hw::begin_block(); $crate::verif_hw::set_opts($crate::hw_opts!($($($o)*)?)); $v = $crate::verif_hw::mov_from_cr(4); }};
    ("mov cr0, {}", in(reg) $e:expr $(, options($($o:tt)*))? $(,)?) => {{ $crate::verif_hw::begin_block(); $crate::verif_hw::set_opts($crate::hw_opts!($($($o)*)?)); $crate::verif_hw::mov_to_cr(0, $e); }};
    ("mov cr2, {}", in(reg) $e:expr $(, options($($o:tt)*))? $(,)?) => {{ $crate::verif_hw::begin_block(); $crate::verif_hw::set_opts($crate::hw_opts!($($($o)*)?)); $crate::verif_hw::mov_to_cr(2, $e); }};
    ("mov cr3, {}", in(reg) $e:expr $(, options($($o:tt)*))? $(,)?) => {{ $crate::verif_hw::begin_block(); $crate::verif_hw::set_opts($crate::hw_opts!($($($o)*)?)); $crate::verif_hw::mov_to_cr(3, $e); }};
    ("mov cr4, {}", in(reg) $e:expr $(, options($($o:tt)*))? $(,)?) => {{ $crate::verif_hw::begin_block(); $crate::verif_hw::set_opts($crate::hw_opts!($($($o)*)?)); $crate::verif_hw::mov_to_cr(4, $e); }};

    // ---- debug registers (debug.rs) ------------------------------------------
    ("mov {}, dr0", out(reg) $v:ident $(, options($($o:tt)*))? $(,)?) => {{ $crate::verif_hw::begin_block(); $crate::verif_hw::set_opts($crate::hw_opts!($($($o)*)?)); $v = $crate::verif_hw::mov_from_dr(0); }};
    ("mov {}, dr1", out(reg) $v:ident $(, options($($o:tt)*))? $(,)?) => {{ $crate::verif_hw::begin_block(); $crate::verif_hw::set_opts($crate::hw_opts!($($($o)*)?)); $v = $crate::verif_hw::mov_from_dr(1); }};
    ("mov {}, dr2", out(reg) $v:ident $(, options($($o:tt)*))? $(,)?) => {{ $crate::verif_hw::begin_block(); $crate::verif_hw::set_opts($crate::hw_opts!($($($o)*)?)); $v = $crate::verif_hw::mov_from_dr(2); }};
    ("mov {}, dr3", out(reg) $v:ident $(, options($($o:tt)*))? $(,)?) => {{ $crate::verif_hw::begin_block(); $crate::verif_hw::set_opts($crate::hw_opts!($($($o)*)?)); $v = $crate::verif_hw::mov_from_dr(3); }};
    ("mov {}, dr6", out(reg) $v:ident $(, options($($o:tt)*))? $(,)?) => {{ $crate::verif_hw::begin_block(); $crate::verif_hw::set_opts($crate::hw_opts!($($($o)*)?)); $v = $crate::verif_hw::mov_from_dr(6); }};
    ("mov {}, dr7", out(reg) $v:ident $(, options($($o:tt)*))? $(,)?) => {{ $crate::verif_hw::begin_block(); $crate::verif_hw::set_opts($crate::hw_opts!($($($o)*)?)); $v = $crate::verif_hw::mov_from_dr(7); }};
    ("mov dr0, {}", in(reg) $e:expr $(, options($($o:tt)*))? $(,)?) => {{ $crate::verif_hw::begin_block(); $crate::verif_hw::set_opts($crate::hw_opts!($($($o)*)?)); $crate::verif_hw::mov_to_dr(0, $e); }};
    ("mov dr1, {}", in(reg) $e:expr $(, options($($o:tt)*))? $(,)?) => {{ $crate::verif_hw::begin_block(); $crate::verif_hw::set_opts($crate::hw_opts!($($($o)*)?)); $crate::verif_hw::mov_to_dr(1, $e); }};
    ("mov dr2, {}", in(reg) $e:expr $(, options($($o:tt)*))? $(,)?) => {{ $crate::verif_hw::begin_block(); $crate::verif_hw::set_opts($crate::hw_opts!($($($o)*)?)); $crate::verif_hw::mov_to_dr(2, $e); }};
    ("mov dr3, {}", in(reg) $e:expr $(, options($($o:tt)*))? $(,)?) => {{ $crate::verif_hw::begin_block(); $crate::verif_hw::set_opts($crate::hw_opts!($($($o)*)?)); $crate::verif_hw::mov_to_dr(3, $e); }};
    ("mov dr6, {}", in(reg) $e:expr $(, options($($o:tt)*))? $(,)?) => {{ $crate::verif_hw::begin_block(); $crate::verif_hw::set_opts($crate::hw_opts!($($($o)*)?)); $crate::verif_hw::mov_to_dr(6, $e); }};
    ("mov dr7, {}", in(reg) $e:expr $(, options($($o:tt)*))? $(,)?) => {{ $crate::verif_hw::begin_block(); $crate::verif_hw::set_opts($crate::hw_opts!($($($o)*)?)); $crate::verif_hw::mov_to_dr(7, $e); }};
    // debug_address_register!: concat!("mov {}, ", "drN") / concat!("mov ", "drN", ", {}")
    (concat!("mov {}, ", $n:literal), out(reg) $v:ident $(, options($($o:tt)*))? $(,)?) => {{
        $crate::verif_hw::begin_block(); $crate::verif_hw::set_opts($crate::hw_opts!($($($o)*)?));
        $v = $crate::verif_hw::mov_from_sysreg({ const R: (u8, u8) = $crate::verif_hw::sysreg_by_name($n); R });
    }};
    (concat!("mov ", $n:literal, ", {}"), in(reg) $e:expr $(, options($($o:tt)*))? $(,)?) => {{
        $crate::verif_hw::begin_block(); $crate::verif_hw::set_opts($crate::hw_opts!($($($o)*)?));
        $crate::verif_hw::mov_to_sysreg({ const R: (u8, u8) = $crate::verif_hw::sysreg_by_name($n); R }, $e);
    }};

    // ---- segment registers (segmentation.rs) ---------------------------------
    // get_reg_impl!: concat!("mov {0:x}, ", "cs")
    (concat!("mov {0:x}, ", $n:literal), out(reg) $v:ident $(, options($($o:tt)*))? $(,)?) => {{
        $crate::verif_hw::begin_block(); $crate::verif_hw::set_opts($crate::hw_opts!($($($o)*)?));
        $v = $crate::verif_hw::mov_from_seg({ const S: u8 = $crate::verif_hw::seg_by_name($n); S });
    }};
    // segment_impl!: concat!("mov ", "ss", ", {0:x}")
    (concat!("mov ", $n:literal, ", {0:x}"), in(reg) $e:expr $(, options($($o:tt)*))? $(,)?) => {{
        $crate::verif_hw::begin_block(); $crate::verif_hw::set_opts($crate::hw_opts!($($($o)*)?));
        $crate::verif_hw::mov_to_seg({ const S: u8 = $crate::verif_hw::seg_by_name($n); S }, $e);
    }};
    // segment64_impl!: concat!("rd", "fs", "base {}") / concat!("wr", "fs", "base {}")
    (concat!("rd", $n:literal, "base {}"), out(reg) $v:ident $(, options($($o:tt)*))? $(,)?) => {{
        $crate::verif_hw::begin_block(); $crate::verif_hw::set_opts($crate::hw_opts!($($($o)*)?));
        $v = $crate::verif_hw::rd_seg_base({ const S: u8 = $crate::verif_hw::seg_by_name($n); S });
    }};
    (concat!("wr", $n:literal, "base {}"), in(reg) $e:expr $(, options($($o:tt)*))? $(,)?) => {{
        $crate::verif_hw::begin_block(); $crate::verif_hw::set_opts($crate::hw_opts!($($($o)*)?));
        $crate::verif_hw::wr_seg_base({ const S: u8 = $crate::verif_hw::seg_by_name($n); S }, $e);
    }};
    // CS::set_reg
    ("push {sel}", "lea {tmp}, [55f + rip]", "push {tmp}", "retfq", "55:",
     sel = in(reg) $s:expr, tmp = lateout(reg) _ $(, options($($o:tt)*))? $(,)?) => {{
        $crate::verif_hw::begin_block(); $crate::verif_hw::set_opts($crate::hw_opts!($($($o)*)?));
        $crate::verif_hw::set_cs($crate::verif_hw::to_u64($s) as u16);
    }};

    // ---- descriptor tables (tables.rs) ---------------------------------------
    ("lgdt [{}]", in(reg) $p:expr $(, options($($o:tt)*))? $(,)?) => {{ $crate::verif_hw::begin_block(); $crate::verif_hw::set_opts($crate::hw_opts!($($($o)*)?)); $crate::verif_hw::lgdt($p as *const _ as *const u8); }};
    ("lidt [{}]", in(reg) $p:expr $(, options($($o:tt)*))? $(,)?) => {{ $crate::verif_hw::begin_block(); $crate::verif_hw::set_opts($crate::hw_opts!($($($o)*)?)); $crate::verif_hw::lidt($p as *const _ as *const u8); }};
    ("sgdt [{}]", in(reg) $p:expr $(, options($($o:tt)*))? $(,)?) => {{ $crate::verif_hw::begin_block(); $crate::verif_hw::set_opts($crate::hw_opts!($($($o)*)?)); $crate::verif_hw::sgdt($p as *mut _ as *mut u8); }};
    ("sidt [{}]", in(reg) $p:expr $(, options($($o:tt)*))? $(,)?) => {{ $crate::verif_hw::begin_block(); $crate::verif_hw::set_opts($crate::hw_opts!($($($o)*)?)); $crate::verif_hw::sidt($p as *mut _ as *mut u8); }};
    ("ltr {0:x}", in(reg) $e:expr $(, options($($o:tt)*))? $(,)?) => {{ $crate::verif_hw::begin_block(); $crate::verif_hw::set_opts($crate::hw_opts!($($($o)*)?)); $crate::verif_hw::ltr($e); }};

    // ---- mxcsr.rs ------------------------------------------------------------
    ("stmxcsr [{}]", in(reg) $p:expr $(, options($($o:tt)*))? $(,)?) => {{ $crate::verif_hw::begin_block(); $crate::verif_hw::set_opts($crate::hw_opts!($($($o)*)?)); $crate::verif_hw::stmxcsr($p as *mut _ as *mut u32); }};
    ("ldmxcsr [{}]", in(reg) $p:expr $(, options($($o:tt)*))? $(,)?) => {{ $crate::verif_hw::begin_block(); $crate::verif_hw::set_opts($crate::hw_opts!($($($o)*)?)); $crate::verif_hw::ldmxcsr($p as *const _ as *const u32); }};

    // ---- rflags.rs -----------------------------------------------------------
    ("pushfq; pop {}", out(reg) $v:ident $(, options($($o:tt)*))? $(,)?) => {{ $crate::verif_hw::begin_block(); $crate::verif_hw::set_opts($crate::hw_opts!($($($o)*)?)); $v = $crate::verif_hw::pushfq_pop(); }};
    ("push {}; popfq", in(reg) $e:expr $(, options($($o:tt)*))? $(,)?) => {{ $crate::verif_hw::begin_block(); $crate::verif_hw::set_opts($crate::hw_opts!($($($o)*)?)); $crate::verif_hw::push_popfq($e); }};

    // ---- idt.rs InterruptStackFrameValue::iretq ------------------------------
    ("push {stack_segment:r}", "push {new_stack_pointer}", "push {rflags}", "push {code_segment:r}",
     "push {new_instruction_pointer}", "iretq",
     rflags = in(reg) $f:expr,
     new_instruction_pointer = in(reg) $ip:expr,
     new_stack_pointer = in(reg) $sp:expr,
     code_segment = in(reg) $cs:expr,
     stack_segment = in(reg) $ss:expr,
     options(noreturn) $(,)?) => {{
        $crate::verif_hw::begin_block();
        $crate::verif_hw::iretq($f, $ip, $sp, $cs, $ss)
    }};

    // ---- anything else -------------------------------------------------------
    // Unknown template or operand list: flag it, give recognisable outputs an
    // unconstrained value. kani_run.py reports the harness as UNDECIDED.
    ($($t:tt)*) => {{
        $crate::verif_hw::begin_block();
        $crate::verif_hw::unknown_asm();
        $crate::hw_asm!(@unk $($t)*);
    }};
}
