//@ unit page -- contracts for /repo/src/structures/paging/page.rs

//@ verbatim
pub trait Sealed {}
// R7: the three size markers are empty enums in /repo (rejected by Verus); unit structs stand in.
#[derive(Clone, Copy, PartialEq, Eq, PartialOrd, Ord, Hash)]
pub struct Size4KiB {}
#[derive(Clone, Copy, PartialEq, Eq, PartialOrd, Ord, Hash)]
pub struct Size2MiB {}
#[derive(Clone, Copy, PartialEq, Eq, PartialOrd, Ord, Hash)]
pub struct Size1GiB {}
impl Sealed for Size4KiB {}
impl Sealed for Size2MiB {}
impl Sealed for Size1GiB {}
pub struct AddressNotAligned;
//@ end

//@ trait src/structures/paging/page.rs PageSize | drop=DEBUG_STR
//@ trait src/structures/paging/page.rs NotGiantPageSize
//@ implblock src/structures/paging/page.rs | impl PageSize for Size4KiB | drop=DEBUG_STR
//@ implblock src/structures/paging/page.rs | impl PageSize for Size2MiB | drop=DEBUG_STR
//@ implblock src/structures/paging/page.rs | impl PageSize for Size1GiB | drop=DEBUG_STR
//@ implblock src/structures/paging/page.rs | impl NotGiantPageSize for Size4KiB
//@ implblock src/structures/paging/page.rs | impl NotGiantPageSize for Size2MiB

//@ struct src/structures/paging/page.rs Page
//@ struct src/structures/paging/page.rs PageRange
//@ struct src/structures/paging/page.rs PageRangeInclusive
//@ implconsts src/structures/paging/page.rs | impl<S: PageSize> Page<S>

//@ verbatim
/// C19/C04: the three page sizes (the trait is sealed: these are the only implementations)
pub proof fn lemma_page_sizes()
    ensures
        Size4KiB::SIZE == 4096, Size2MiB::SIZE == 0x20_0000, Size1GiB::SIZE == 0x4000_0000,
        valid_size(Size4KiB::SIZE), valid_size(Size2MiB::SIZE), valid_size(Size1GiB::SIZE),
{
}

impl<S: PageSize> PartialEqSpecImpl for Page<S> {
    open spec fn obeys_eq_spec() -> bool { true }
    open spec fn eq_spec(&self, other: &Page<S>) -> bool { self.start_address.0 == other.start_address.0 }
}
// derive(PartialOrd) on Page compares start_address, then PhantomData (always equal): ASSUMED, cross-checked by E1
impl<S: PageSize> PartialOrdSpecImpl for Page<S> {
    open spec fn obeys_partial_cmp_spec() -> bool { true }
    open spec fn partial_cmp_spec(&self, other: &Page<S>) -> Option<core::cmp::Ordering> {
        if self.start_address.0 < other.start_address.0 { Some(core::cmp::Ordering::Less) }
        else if self.start_address.0 == other.start_address.0 { Some(core::cmp::Ordering::Equal) }
        else { Some(core::cmp::Ordering::Greater) }
    }
}

pub open spec fn wf_page<S: PageSize>(p: Page<S>) -> bool {
    wf_v(p.start_address) && is_mult(p.start_address.0 as int, S::SIZE as int)
}

pub proof fn lemma_valid_size(s: u64)
    requires valid_size(s)
    ensures pow2_u64(s), s <= 0x8000_0000_0000, s >= 4096, is_mult(s as int, s as int), is_mult(0int, s as int), is_mult(0x8000_0000_0000int, s as int), is_mult(0x1_0000_0000_0000_0000int, s as int),
            is_mult(0x1_0000_0000_0000int, s as int), is_mult(0x10_0000_0000_0000int, s as int), is_mult(0xffff_8000_0000_0000int, s as int),
{
    reveal(is_mult);
    assert(pow2_u64(4096u64) && pow2_u64(0x20_0000u64) && pow2_u64(0x4000_0000u64)) by (bit_vector);
    assert(0x8000_0000_0000int % 4096 == 0 && 0x8000_0000_0000int % 0x20_0000 == 0 && 0x8000_0000_0000int % 0x4000_0000 == 0) by (compute);
    assert(0x1_0000_0000_0000_0000int % 4096 == 0 && 0x1_0000_0000_0000_0000int % 0x20_0000 == 0 && 0x1_0000_0000_0000_0000int % 0x4000_0000 == 0) by (compute);
    assert(0x1_0000_0000_0000int % 4096 == 0 && 0x1_0000_0000_0000int % 0x20_0000 == 0 && 0x1_0000_0000_0000int % 0x4000_0000 == 0) by (compute);
    assert(0x10_0000_0000_0000int % 4096 == 0 && 0x10_0000_0000_0000int % 0x20_0000 == 0 && 0x10_0000_0000_0000int % 0x4000_0000 == 0) by (compute);
    assert(0xffff_8000_0000_0000int % 4096 == 0 && 0xffff_8000_0000_0000int % 0x20_0000 == 0 && 0xffff_8000_0000_0000int % 0x4000_0000 == 0) by (compute);
}

/// k * s is a multiple of s
pub proof fn lemma_mult_of(k: int, s: int)
    requires s > 0
    ensures is_mult(k * s, s), k >= 0 ==> k * s >= 0,
{
    reveal(is_mult);
    lemma_mod_multiples_basic(k, s);
    if k >= 0 { lemma_mul_nonnegative(k, s); }
}

/// x = (x / s) * s for multiples
pub proof fn lemma_mult_div(x: int, s: int)
    requires s > 0, is_mult(x, s)
    ensures (x / s) * s == x, x >= 0 ==> x / s >= 0, x > 0 ==> x / s >= 1,
{
    reveal(is_mult);
    lemma_fundamental_div_mod(x, s);
    lemma_mul_is_commutative(s, x / s);
    if x > 0 && x / s <= 0 { lemma_mul_inequality(x / s, 0, s); }
    if x >= 0 && x / s < 0 { lemma_mul_inequality(x / s, -1, s); }
}

/// sum and difference of multiples are multiples
pub proof fn lemma_mult_add_sub(a: int, b: int, s: int)
    requires s > 0, is_mult(a, s), is_mult(b, s)
    ensures is_mult(a + b, s), is_mult(a - b, s), is_mult(b - a, s),
{
    lemma_mult_div(a, s);
    lemma_mult_div(b, s);
    let qa = a / s; let qb = b / s;
    assert((qa + qb) * s == a + b) by { lemma_mul_is_distributive_add_other_way(s, qa, qb); }
    assert((qa - qb) * s == a - b) by { lemma_mul_is_distributive_sub_other_way(s, qa, qb); }
    assert((qb - qa) * s == b - a) by { lemma_mul_is_distributive_sub_other_way(s, qb, qa); }
    lemma_mult_of(qa + qb, s);
    lemma_mult_of(qa - qb, s);
    lemma_mult_of(qb - qa, s);
}

/// distinct multiples are a whole step apart
pub proof fn lemma_mult_gap(a: int, b: int, s: int)
    requires s > 0, is_mult(a, s), is_mult(b, s), a < b
    ensures a + s <= b,
{
    lemma_mult_div(a, s);
    lemma_mult_div(b, s);
    let qa = a / s; let qb = b / s;
    if qa >= qb {
        lemma_mul_inequality(qb, qa, s);
        assert(false);
    }
    lemma_mul_inequality(qa + 1, qb, s);
    assert((qa + 1) * s == qa * s + s) by { lemma_mul_is_distributive_add_other_way(s, qa, 1); }
}

/// quotient of a difference of multiples
pub proof fn lemma_mult_div_sub(a: int, b: int, s: int)
    requires s > 0, is_mult(a, s), is_mult(b, s), a <= b
    ensures (b - a) / s == b / s - a / s,
{
    lemma_mult_div(a, s);
    lemma_mult_div(b, s);
    let qa = a / s; let qb = b / s;
    assert((qb - qa) * s == b - a) by { lemma_mul_is_distributive_sub_other_way(s, qb, qa); }
    lemma_div_multiples_vanish(qb - qa, s);
}

/// sums, differences and multiples of multiples are multiples; distinct multiples are a whole step apart
pub proof fn lemma_mult_arith(a: int, b: int, s: int)
    requires s > 0, is_mult(a, s), is_mult(b, s)
    ensures
        is_mult(a + b, s), is_mult(a - b, s), is_mult(b - a, s), is_mult(s, s), is_mult(0, s),
        a < b ==> a + s <= b,
        forall|k: int| #[trigger] is_mult(k * s, s),
        (a / s) * s == a,
        a <= b ==> (b - a) / s == b / s - a / s,
{
    lemma_mult_add_sub(a, b, s);
    lemma_mult_div(a, s);
    lemma_mult_of(1, s);
    lemma_mult_of(0, s);
    assert(1 * s == s && 0 * s == 0);
    assert forall|k: int| #[trigger] is_mult(k * s, s) by { lemma_mult_of(k, s); }
    if a < b { lemma_mult_gap(a, b, s); }
    if a <= b { lemma_mult_div_sub(a, b, s); }
}

/// abstract contents of a range with inclusive bounds lo..=hi in steps of s (addresses, ascending)
pub open spec fn seq_incl(lo: int, hi: int, s: int) -> Seq<int> {
    Seq::new(if lo <= hi { ((hi - lo) / s + 1) as nat } else { 0nat }, |i: int| lo + i * s)
}
/// abstract contents of a range lo..hi (exclusive)
pub open spec fn seq_excl(lo: int, hi: int, s: int) -> Seq<int> {
    Seq::new(if lo < hi { ((hi - lo) / s) as nat } else { 0nat }, |i: int| lo + i * s)
}

/// number of steps of size s between multiples lo <= hi, and what one more step does to it
pub proof fn lemma_count(lo: int, hi: int, s: int)
    requires s > 0, is_mult(lo, s), is_mult(hi, s), lo <= hi
    ensures
        (hi - lo) / s >= 0,
        lo < hi ==> (hi - lo) / s >= 1 && lo + s <= hi && (hi - (lo + s)) / s == (hi - lo) / s - 1 && ((hi - s) - lo) / s == (hi - lo) / s - 1,
        lo == hi ==> (hi - lo) / s == 0,
        is_mult(lo + s, s), is_mult(hi - s, s),
{
    lemma_mult_arith(lo, hi, s);
    lemma_mult_arith(lo, s, s);
    lemma_mult_arith(s, hi, s);
    let x = hi - lo;
    lemma_mult_div(x, s);
    let n = x / s;
    if lo < hi {
        lemma_mul_is_distributive_sub_other_way(s, n, 1);
        assert(x - s == (n - 1) * s);
        lemma_div_multiples_vanish(n - 1, s);
    }
}

pub proof fn lemma_seq_excl_step(lo: int, hi: int, s: int)
    requires s > 0, is_mult(lo, s), is_mult(hi, s), lo < hi
    ensures
        seq_excl(lo, hi, s).len() >= 1,
        seq_excl(lo, hi, s)[0] == lo,
        seq_excl(lo + s, hi, s) == seq_excl(lo, hi, s).subrange(1, seq_excl(lo, hi, s).len() as int),
        seq_excl(lo + s, hi, s).len() == seq_excl(lo, hi, s).len() - 1,
        seq_excl(lo, hi, s).len() == (hi - lo) / s,
{
    lemma_count(lo, hi, s);
    let full = seq_excl(lo, hi, s);
    let a = seq_excl(lo + s, hi, s);
    let b = full.subrange(1, full.len() as int);
    assert(a.len() == b.len());
    assert forall|i: int| 0 <= i < a.len() implies a[i] == b[i] by {
        lemma_mul_is_distributive_add_other_way(s, i, 1);
    }
    assert(a =~= b);
}

pub proof fn lemma_seq_incl_step(lo: int, hi: int, s: int)
    requires s > 0, is_mult(lo, s), is_mult(hi, s), lo <= hi
    ensures
        seq_incl(lo, hi, s).len() >= 1,
        seq_incl(lo, hi, s)[0] == lo,
        seq_incl(lo + s, hi, s) == seq_incl(lo, hi, s).subrange(1, seq_incl(lo, hi, s).len() as int),
        seq_incl(lo, hi - s, s) == seq_incl(lo, hi, s).subrange(0, seq_incl(lo, hi, s).len() as int - 1),
        seq_incl(lo, hi, s).len() == (hi - lo) / s + 1,
        lo == hi ==> seq_incl(lo, hi, s).len() == 1,
{
    lemma_count(lo, hi, s);
    let full = seq_incl(lo, hi, s);
    let a = seq_incl(lo + s, hi, s);
    let b = full.subrange(1, full.len() as int);
    assert(a.len() == b.len());
    assert forall|i: int| 0 <= i < a.len() implies a[i] == b[i] by {
        lemma_mul_is_distributive_add_other_way(s, i, 1);
    }
    assert(a =~= b);
    let c = seq_incl(lo, hi - s, s);
    let d = full.subrange(0, full.len() as int - 1);
    assert(c.len() == d.len());
    assert(c =~= d);
}

/// a multiple of a valid page size that lies strictly inside a canonical half leaves room for one more page
pub proof fn lemma_next_page_in_half(a: u64, e: u64, s: u64)
    requires valid_size(s), canonical(a), canonical(e), same_half(a, e), is_mult(a as int, s as int), is_mult(e as int, s as int), a < e
    ensures a + s <= e, canonical((a + s) as u64), same_half((a + s) as u64, e),
{
    lemma_valid_size(s);
    lemma_mult_arith(a as int, e as int, s as int);
    lemma_canonical_halves(a); lemma_canonical_halves(e); lemma_canonical_halves((a + s) as u64);
}
//@ end

// ---------------------------------------------------------------------------

//@ fn src/structures/paging/page.rs | impl<S: PageSize> Page<S> | from_start_address
//@ obligation C06 C06.Page_from_start_address.ok_iff_aligned
//@ obligation C03 C03.Page_from_start_address.valid
//@ A
    requires valid_size(S::SIZE), wf_v(address),
    ensures
        r is Ok <==> is_mult(address.0 as int, S::SIZE as int),
        r is Ok ==> r->Ok_0.start_address.0 == address.0 && wf_page(r->Ok_0),
//@ proof
        lemma_valid_size(S::SIZE);
//@ end

//@ fn src/structures/paging/page.rs | impl<S: PageSize> Page<S> | from_start_address_unchecked
//@ obligation C03 C03.Page_from_start_address_unchecked.helper_identity
//@ A
    requires wf_v(start_address), is_mult(start_address.0 as int, S::SIZE as int),
    ensures r.start_address == start_address, wf_page(r),
//@ end

//@ fn src/structures/paging/page.rs | impl<S: PageSize> Page<S> | containing_address
//@ obligation C06 C06.Page_containing_address.aligned_start_within_one_page
//@ obligation C03 C03.Page_containing_address.valid
//@ A
    requires valid_size(S::SIZE), wf_v(address),
    ensures
        wf_page(r),
        r.start_address.0 <= address.0, address.0 - r.start_address.0 < S::SIZE,
        r.start_address.0 == align_down_spec(address.0, S::SIZE),
        same_half(r.start_address.0, address.0),
        is_mult(address.0 as int, S::SIZE as int) ==> r.start_address.0 == address.0,
//@ proof
        lemma_valid_size(S::SIZE);
        lemma_align_down(address.0, S::SIZE);
//@ end

//@ fn src/structures/paging/page.rs | impl<S: PageSize> Page<S> | start_address
//@ obligation C03 C03.Page_start_address.valid
//@ A
    ensures r == self.start_address,
//@ end

//@ fn src/structures/paging/page.rs | impl<S: PageSize> Page<S> | size
//@ obligation C07 C07.Page_size.is_page_size
//@ A
    ensures r == S::SIZE,
//@ end

//@ fn src/structures/paging/page.rs | impl<S: PageSize> Page<S> | p4_index
//@ obligation C04 C04.Page_p4_index.bits_39_47
//@ A
    ensures r.0 as u64 == (self.start_address.0 >> 39) & 0x1ff, r.0 < 512,
//@ end

//@ fn src/structures/paging/page.rs | impl<S: PageSize> Page<S> | p3_index
//@ obligation C04 C04.Page_p3_index.bits_30_38
//@ A
    ensures r.0 as u64 == (self.start_address.0 >> 30) & 0x1ff, r.0 < 512,
//@ end

//@ fn src/structures/paging/page.rs | impl<S: PageSize> Page<S> | page_table_index
//@ obligation C04 C04.Page_page_table_index.by_level
//@ A
    ensures r.0 as u64 == (self.start_address.0 >> level_shift(level)) & 0x1ff, r.0 < 512,
//@ end

//@ fn src/structures/paging/page.rs | impl<S: NotGiantPageSize> Page<S> | p2_index
//@ obligation C04 C04.Page_p2_index.bits_21_29
//@ A
    ensures r.0 as u64 == (self.start_address.0 >> 21) & 0x1ff, r.0 < 512,
//@ end

//@ fn src/structures/paging/page.rs | impl Page<Size4KiB> | p1_index
//@ obligation C04 C04.Page_p1_index.bits_12_20
//@ A
    ensures r.0 as u64 == (self.start_address.0 >> 12) & 0x1ff, r.0 < 512,
//@ end

//@ fn src/structures/paging/page.rs | impl<S: PageSize> Page<S> | range
//@ obligation C07 C07.Page_range.bounds_as_given
//@ A
    ensures r.start == start, r.end == end,
//@ end

//@ fn src/structures/paging/page.rs | impl<S: PageSize> Page<S> | range_inclusive
//@ obligation C07 C07.Page_range_inclusive.bounds_as_given
//@ A
    ensures r.start == start, r.end == end,
//@ end

// ---- from_page_table_indices (C04 inverse direction) -------------------------

//@ verbatim
pub proof fn lemma_indices_roundtrip(i4: u64, i3: u64, i2: u64, i1: u64)
    requires i4 < 512, i3 < 512, i2 < 512, i1 < 512
    ensures ({
        let raw = (i4 << 39) | (i3 << 30) | (i2 << 21) | (i1 << 12);
        let a = sext48(raw);
        &&& canonical(a)
        &&& (a >> 39) & 0x1ff == i4
        &&& (a >> 30) & 0x1ff == i3
        &&& (a >> 21) & 0x1ff == i2
        &&& (a >> 12) & 0x1ff == i1
        &&& a & 0xfff == 0
        &&& (i1 == 0 ==> a & 0x1f_ffff == 0)
        &&& (i1 == 0 && i2 == 0 ==> a & 0x3fff_ffff == 0)
        &&& (0u64 | (i4 << 39)) | (i3 << 30) == (i4 << 39) | (i3 << 30)
    }),
{
    assert(i4 < 512 && i3 < 512 && i2 < 512 && i1 < 512 ==> ({
        let raw = (i4 << 39) | (i3 << 30) | (i2 << 21) | (i1 << 12);
        let a = sext48(raw);
        &&& canonical(a)
        &&& (a >> 39) & 0x1ff == i4
        &&& (a >> 30) & 0x1ff == i3
        &&& (a >> 21) & 0x1ff == i2
        &&& (a >> 12) & 0x1ff == i1
        &&& a & 0xfff == 0
        &&& (i1 == 0 ==> a & 0x1f_ffff == 0)
        &&& (i1 == 0 && i2 == 0 ==> a & 0x3fff_ffff == 0)
        &&& (0u64 | (i4 << 39)) | (i3 << 30) == (i4 << 39) | (i3 << 30)
    })) by (bit_vector);
}

/// uniqueness: a canonical address is determined by its four indices and its page offset
pub proof fn lemma_indices_unique(a: u64, b: u64)
    requires
        canonical(a), canonical(b),
        (a >> 39) & 0x1ff == (b >> 39) & 0x1ff, (a >> 30) & 0x1ff == (b >> 30) & 0x1ff,
        (a >> 21) & 0x1ff == (b >> 21) & 0x1ff, (a >> 12) & 0x1ff == (b >> 12) & 0x1ff,
        a & 0xfff == b & 0xfff,
    ensures a == b
{
    assert(canonical(a) && canonical(b) &&
        (a >> 39) & 0x1ff == (b >> 39) & 0x1ff && (a >> 30) & 0x1ff == (b >> 30) & 0x1ff &&
        (a >> 21) & 0x1ff == (b >> 21) & 0x1ff && (a >> 12) & 0x1ff == (b >> 12) & 0x1ff &&
        a & 0xfff == b & 0xfff ==> a == b) by (bit_vector);
}

pub proof fn lemma_mask_is_mult(a: u64)
    ensures
        a & 0xfff == 0 <==> is_mult(a as int, 4096),
        a & 0x1f_ffff == 0 <==> is_mult(a as int, 0x20_0000),
        a & 0x3fff_ffff == 0 <==> is_mult(a as int, 0x4000_0000),
{
    reveal(is_mult);
    assert(a & 0xfff == 0 <==> a % 4096 == 0) by (bit_vector);
    assert(a & 0x1f_ffff == 0 <==> a % 0x20_0000 == 0) by (bit_vector);
    assert(a & 0x3fff_ffff == 0 <==> a % 0x4000_0000 == 0) by (bit_vector);
}
//@ end

//@ fn src/structures/paging/page.rs | impl Page<Size1GiB> | from_page_table_indices_1gib
//@ obligation C04 C04.Page_from_page_table_indices_1gib.inverse_unique
//@ obligation C03 C03.Page_from_page_table_indices_1gib.valid
//@ A
    requires wf_idx(p4_index), wf_idx(p3_index),
    ensures
        wf_page(r),
        r.start_address.0 == sext48(((p4_index.0 as u64) << 39) | ((p3_index.0 as u64) << 30)),
        (r.start_address.0 >> 39) & 0x1ff == p4_index.0 as u64,
        (r.start_address.0 >> 30) & 0x1ff == p3_index.0 as u64,
        r.start_address.0 & 0x3fff_ffff == 0,
        // unique canonical 1 GiB page with these indices
        forall|b: u64| canonical(b) && #[trigger] is_mult(b as int, 0x4000_0000) && (b >> 39) & 0x1ff == p4_index.0 as u64
            && (b >> 30) & 0x1ff == p3_index.0 as u64 ==> b == r.start_address.0,
//@ proof
        lemma_page_sizes();
        lemma_indices_roundtrip(p4_index.0 as u64, p3_index.0 as u64, 0, 0);
        let raw = ((p4_index.0 as u64) << 39) | ((p3_index.0 as u64) << 30);
        assert(raw | (0u64 << 21) | (0u64 << 12) == raw) by (bit_vector);
        lemma_mask_is_mult(sext48(raw));
        assert forall|b: u64| canonical(b) && #[trigger] is_mult(b as int, 0x4000_0000) && (b >> 39) & 0x1ff == p4_index.0 as u64
            && (b >> 30) & 0x1ff == p3_index.0 as u64 implies b == sext48(raw) by {
            lemma_mask_is_mult(b);
            assert(b & 0x3fff_ffff == 0 ==> (b >> 21) & 0x1ff == 0 && (b >> 12) & 0x1ff == 0 && b & 0xfff == 0) by (bit_vector);
            let a = sext48(raw);
            assert(a & 0x3fff_ffff == 0 ==> (a >> 21) & 0x1ff == 0 && (a >> 12) & 0x1ff == 0 && a & 0xfff == 0) by (bit_vector);
            lemma_indices_unique(b, a);
        }
//@ end

//@ fn src/structures/paging/page.rs | impl Page<Size2MiB> | from_page_table_indices_2mib
//@ obligation C04 C04.Page_from_page_table_indices_2mib.inverse_unique
//@ obligation C03 C03.Page_from_page_table_indices_2mib.valid
//@ A
    requires wf_idx(p4_index), wf_idx(p3_index), wf_idx(p2_index),
    ensures
        wf_page(r),
        r.start_address.0 == sext48(((p4_index.0 as u64) << 39) | ((p3_index.0 as u64) << 30) | ((p2_index.0 as u64) << 21)),
        (r.start_address.0 >> 39) & 0x1ff == p4_index.0 as u64,
        (r.start_address.0 >> 30) & 0x1ff == p3_index.0 as u64,
        (r.start_address.0 >> 21) & 0x1ff == p2_index.0 as u64,
        r.start_address.0 & 0x1f_ffff == 0,
        forall|b: u64| canonical(b) && #[trigger] is_mult(b as int, 0x20_0000) && (b >> 39) & 0x1ff == p4_index.0 as u64
            && (b >> 30) & 0x1ff == p3_index.0 as u64 && (b >> 21) & 0x1ff == p2_index.0 as u64 ==> b == r.start_address.0,
//@ proof
        lemma_page_sizes();
        lemma_indices_roundtrip(p4_index.0 as u64, p3_index.0 as u64, p2_index.0 as u64, 0);
        let raw = ((p4_index.0 as u64) << 39) | ((p3_index.0 as u64) << 30) | ((p2_index.0 as u64) << 21);
        assert(raw | (0u64 << 12) == raw) by (bit_vector);
        let i4 = p4_index.0 as u64; let i3 = p3_index.0 as u64; let i2 = p2_index.0 as u64;
        assert(((0u64 | (i4 << 39)) | (i3 << 30)) | (i2 << 21) == (i4 << 39) | (i3 << 30) | (i2 << 21)) by (bit_vector);
        lemma_mask_is_mult(sext48(raw));
        assert forall|b: u64| canonical(b) && #[trigger] is_mult(b as int, 0x20_0000) && (b >> 39) & 0x1ff == p4_index.0 as u64
            && (b >> 30) & 0x1ff == p3_index.0 as u64 && (b >> 21) & 0x1ff == p2_index.0 as u64 implies b == sext48(raw) by {
            lemma_mask_is_mult(b);
            assert(b & 0x1f_ffff == 0 ==> (b >> 12) & 0x1ff == 0 && b & 0xfff == 0) by (bit_vector);
            let a = sext48(raw);
            assert(a & 0x1f_ffff == 0 ==> (a >> 12) & 0x1ff == 0 && a & 0xfff == 0) by (bit_vector);
            lemma_indices_unique(b, a);
        }
//@ end

//@ fn src/structures/paging/page.rs | impl Page<Size4KiB> | from_page_table_indices
//@ obligation C04 C04.Page_from_page_table_indices.inverse_unique
//@ obligation C03 C03.Page_from_page_table_indices.valid
//@ A
    requires wf_idx(p4_index), wf_idx(p3_index), wf_idx(p2_index), wf_idx(p1_index),
    ensures
        wf_page(r),
        r.start_address.0 == sext48(((p4_index.0 as u64) << 39) | ((p3_index.0 as u64) << 30) | ((p2_index.0 as u64) << 21) | ((p1_index.0 as u64) << 12)),
        (r.start_address.0 >> 39) & 0x1ff == p4_index.0 as u64,
        (r.start_address.0 >> 30) & 0x1ff == p3_index.0 as u64,
        (r.start_address.0 >> 21) & 0x1ff == p2_index.0 as u64,
        (r.start_address.0 >> 12) & 0x1ff == p1_index.0 as u64,
        r.start_address.0 & 0xfff == 0,
        forall|b: u64| canonical(b) && #[trigger] is_mult(b as int, 4096) && (b >> 39) & 0x1ff == p4_index.0 as u64
            && (b >> 30) & 0x1ff == p3_index.0 as u64 && (b >> 21) & 0x1ff == p2_index.0 as u64
            && (b >> 12) & 0x1ff == p1_index.0 as u64 ==> b == r.start_address.0,
//@ proof
        lemma_page_sizes();
        lemma_indices_roundtrip(p4_index.0 as u64, p3_index.0 as u64, p2_index.0 as u64, p1_index.0 as u64);
        let i4 = p4_index.0 as u64; let i3 = p3_index.0 as u64; let i2 = p2_index.0 as u64; let i1 = p1_index.0 as u64;
        let raw = (i4 << 39) | (i3 << 30) | (i2 << 21) | (i1 << 12);
        assert((((0u64 | (i4 << 39)) | (i3 << 30)) | (i2 << 21)) | (i1 << 12) == (i4 << 39) | (i3 << 30) | (i2 << 21) | (i1 << 12)) by (bit_vector);
        lemma_mask_is_mult(sext48(raw));
        assert forall|b: u64| canonical(b) && #[trigger] is_mult(b as int, 4096) && (b >> 39) & 0x1ff == p4_index.0 as u64
            && (b >> 30) & 0x1ff == p3_index.0 as u64 && (b >> 21) & 0x1ff == p2_index.0 as u64
            && (b >> 12) & 0x1ff == p1_index.0 as u64 implies b == sext48(raw) by {
            lemma_mask_is_mult(b);
            lemma_indices_unique(b, sext48(raw));
        }
//@ end

// ---------------------------------------------------------------------------
// page stepping (C05): whole pages over the contiguous canonical sequence

//@ verbatim
/// rank of a page start and its alignment: pos of a multiple is a multiple
pub proof fn lemma_pos_mult(a: u64, s: u64)
    requires valid_size(s), canonical(a)
    ensures is_mult(a as int, s as int) <==> is_mult(pos(a), s as int)
{
    reveal(is_mult);
    lemma_valid_size(s);
    lemma_canonical_halves(a);
    if a >= 0xffff_8000_0000_0000 {
        // a = pos(a) + 0xffff_0000_0000_0000, and that constant is a multiple of s
        assert(0xffff_0000_0000_0000int % 4096 == 0 && 0xffff_0000_0000_0000int % 0x20_0000 == 0 && 0xffff_0000_0000_0000int % 0x4000_0000 == 0) by (compute);
        assert(is_mult(0xffff_0000_0000_0000int, s as int));
        if is_mult(a as int, s as int) { lemma_mult_arith(a as int, 0xffff_0000_0000_0000int, s as int); }
        if is_mult(pos(a), s as int) { lemma_mult_arith(pos(a), 0xffff_0000_0000_0000int, s as int); }
    }
}
//@ end

//@ fn src/structures/paging/page.rs | impl<S: PageSize> Page<S> | steps_between_impl
//@ obligation C05 C05.Page_steps_between_impl.exact_pages_or_none
//@ A
    requires valid_size(S::SIZE), wf_page(*start), wf_page(*end),
    ensures
        pos(start.start_address.0) <= pos(end.start_address.0) ==>
            r.1 == Some(((pos(end.start_address.0) - pos(start.start_address.0)) / S::SIZE as int) as usize)
            && r.0 == ((pos(end.start_address.0) - pos(start.start_address.0)) / S::SIZE as int) as usize
            && ((pos(end.start_address.0) - pos(start.start_address.0)) / S::SIZE as int) * S::SIZE as int == pos(end.start_address.0) - pos(start.start_address.0),
        pos(start.start_address.0) > pos(end.start_address.0) ==> r.1 is None && r.0 == 0,
//@ proof
        lemma_valid_size(S::SIZE);
        lemma_canonical_halves(start.start_address.0); lemma_canonical_halves(end.start_address.0);
        lemma_pos_mult(start.start_address.0, S::SIZE); lemma_pos_mult(end.start_address.0, S::SIZE);
        if pos(start.start_address.0) <= pos(end.start_address.0) {
            lemma_mult_arith(pos(start.start_address.0), pos(end.start_address.0), S::SIZE as int);
            lemma_mult_div(pos(end.start_address.0) - pos(start.start_address.0), S::SIZE as int);
        }
//@ end

//@ fn src/structures/paging/page.rs | impl<S: PageSize> Page<S> | forward_checked_impl
//@ obligation C05 C05.Page_forward_checked_impl.whole_pages_or_none
//@ obligation C03 C03.Page_forward_checked_impl.valid
//@ A
    requires valid_size(S::SIZE), wf_page(start),
    ensures
        r is Some <==> pos(start.start_address.0) + count * S::SIZE < 0x1_0000_0000_0000,
        r is Some ==> wf_page(r->Some_0) && pos(r->Some_0.start_address.0) == pos(start.start_address.0) + count * S::SIZE,
//@ proof
        lemma_valid_size(S::SIZE);
        lemma_canonical_halves(start.start_address.0);
        lemma_pos_mult(start.start_address.0, S::SIZE);
        lemma_mult_of(count as int, S::SIZE as int);
        lemma_mult_arith(pos(start.start_address.0), count * S::SIZE, S::SIZE as int);
        if count * S::SIZE > u64::MAX { }
        assert forall|v: VirtAddr| wf_v(v) && pos(v.0) == pos(start.start_address.0) + count * S::SIZE implies is_mult(#[trigger] v.0 as int, S::SIZE as int) by {
            lemma_pos_mult(v.0, S::SIZE);
        }
//@ end

//@ fn src/structures/paging/page.rs | impl<S: PageSize> Step for Page<S> | steps_between
//@ as impl<S: PageSize> Page<S>
//@ obligation C05 C05.Page_Step_steps_between.exact_pages_or_none
//@ A
    requires valid_size(S::SIZE), wf_page(*start), wf_page(*end),
    ensures
        pos(start.start_address.0) <= pos(end.start_address.0) ==>
            r.1 == Some(((pos(end.start_address.0) - pos(start.start_address.0)) / S::SIZE as int) as usize)
            && r.0 == ((pos(end.start_address.0) - pos(start.start_address.0)) / S::SIZE as int) as usize,
        pos(start.start_address.0) > pos(end.start_address.0) ==> r.1 is None && r.0 == 0,
//@ end

//@ fn src/structures/paging/page.rs | impl<S: PageSize> Step for Page<S> | forward_checked
//@ as impl<S: PageSize> Page<S>
//@ obligation C05 C05.Page_Step_forward_checked.whole_pages_or_none
//@ obligation C03 C03.Page_Step_forward_checked.valid
//@ A
    requires valid_size(S::SIZE), wf_page(start),
    ensures
        r is Some <==> pos(start.start_address.0) + count * S::SIZE < 0x1_0000_0000_0000,
        r is Some ==> wf_page(r->Some_0) && pos(r->Some_0.start_address.0) == pos(start.start_address.0) + count * S::SIZE,
//@ end

//@ fn src/structures/paging/page.rs | impl<S: PageSize> Step for Page<S> | backward_checked
//@ as impl<S: PageSize> Page<S>
//@ obligation C05 C05.Page_Step_backward_checked.whole_pages_or_none
//@ obligation C03 C03.Page_Step_backward_checked.valid
//@ sub /use core::convert::TryFrom;/ => 
//@ A
    requires valid_size(S::SIZE), wf_page(start),
    ensures
        r is Some <==> pos(start.start_address.0) - count * S::SIZE >= 0,
        r is Some ==> wf_page(r->Some_0) && pos(r->Some_0.start_address.0) == pos(start.start_address.0) - count * S::SIZE,
//@ proof
        lemma_valid_size(S::SIZE);
        lemma_canonical_halves(start.start_address.0);
        lemma_pos_mult(start.start_address.0, S::SIZE);
        lemma_mult_of(count as int, S::SIZE as int);
        lemma_mult_arith(pos(start.start_address.0), count * S::SIZE, S::SIZE as int);
        assert forall|v: VirtAddr| wf_v(v) && pos(v.0) == pos(start.start_address.0) - count * S::SIZE implies is_mult(#[trigger] v.0 as int, S::SIZE as int) by {
            lemma_pos_mult(v.0, S::SIZE);
        }
//@ end

// ---------------------------------------------------------------------------
// page operators (C07)

//@ verbatim A
impl<S: PageSize> AddSpecImpl<u64> for Page<S> {
    open spec fn obeys_add_spec() -> bool { false }
    open spec fn add_req(self, rhs: u64) -> bool {
        valid_size(S::SIZE) && wf_page(self) && self.start_address.0 + rhs * S::SIZE <= u64::MAX
        && canonical((self.start_address.0 + rhs * S::SIZE) as u64)
    }
    open spec fn add_spec(self, rhs: u64) -> Page<S> { self }
}
impl<S: PageSize> SubSpecImpl<u64> for Page<S> {
    open spec fn obeys_sub_spec() -> bool { false }
    open spec fn sub_req(self, rhs: u64) -> bool {
        valid_size(S::SIZE) && wf_page(self) && self.start_address.0 - rhs * S::SIZE >= 0
        && canonical((self.start_address.0 - rhs * S::SIZE) as u64)
    }
    open spec fn sub_spec(self, rhs: u64) -> Page<S> { self }
}
impl<S: PageSize> AddAssignSpecImpl<u64> for Page<S> {
    open spec fn obeys_add_assign_spec() -> bool { false }
    open spec fn add_assign_req(&self, rhs: u64) -> bool {
        valid_size(S::SIZE) && wf_page(*self) && self.start_address.0 + rhs * S::SIZE <= u64::MAX
        && canonical((self.start_address.0 + rhs * S::SIZE) as u64)
    }
    open spec fn add_assign_spec(&self, rhs: u64) -> &Page<S> { self }
}
impl<S: PageSize> SubAssignSpecImpl<u64> for Page<S> {
    open spec fn obeys_sub_assign_spec() -> bool { false }
    open spec fn sub_assign_req(&self, rhs: u64) -> bool {
        valid_size(S::SIZE) && wf_page(*self) && self.start_address.0 - rhs * S::SIZE >= 0
        && canonical((self.start_address.0 - rhs * S::SIZE) as u64)
    }
    open spec fn sub_assign_spec(&self, rhs: u64) -> &Page<S> { self }
}
impl<S: PageSize> SubSpecImpl<Page<S>> for Page<S> {
    open spec fn obeys_sub_spec() -> bool { false }
    open spec fn sub_req(self, rhs: Page<S>) -> bool { valid_size(S::SIZE) && wf_page(self) && wf_page(rhs) && self.start_address.0 >= rhs.start_address.0 }
    open spec fn sub_spec(self, rhs: Page<S>) -> u64 { 0 }
}
//@ end

//@ verbatim B
// mode B: only the type invariants of the operands are assumed
impl<S: PageSize> AddSpecImpl<u64> for Page<S> {
    open spec fn obeys_add_spec() -> bool { false }
    open spec fn add_req(self, rhs: u64) -> bool { valid_size(S::SIZE) && wf_page(self) }
    open spec fn add_spec(self, rhs: u64) -> Page<S> { self }
}
impl<S: PageSize> SubSpecImpl<u64> for Page<S> {
    open spec fn obeys_sub_spec() -> bool { false }
    open spec fn sub_req(self, rhs: u64) -> bool { valid_size(S::SIZE) && wf_page(self) }
    open spec fn sub_spec(self, rhs: u64) -> Page<S> { self }
}
impl<S: PageSize> AddAssignSpecImpl<u64> for Page<S> {
    open spec fn obeys_add_assign_spec() -> bool { false }
    open spec fn add_assign_req(&self, rhs: u64) -> bool { valid_size(S::SIZE) && wf_page(*self) }
    open spec fn add_assign_spec(&self, rhs: u64) -> &Page<S> { self }
}
impl<S: PageSize> SubAssignSpecImpl<u64> for Page<S> {
    open spec fn obeys_sub_assign_spec() -> bool { false }
    open spec fn sub_assign_req(&self, rhs: u64) -> bool { valid_size(S::SIZE) && wf_page(*self) }
    open spec fn sub_assign_spec(&self, rhs: u64) -> &Page<S> { self }
}
impl<S: PageSize> SubSpecImpl<Page<S>> for Page<S> {
    open spec fn obeys_sub_spec() -> bool { false }
    open spec fn sub_req(self, rhs: Page<S>) -> bool { valid_size(S::SIZE) && wf_page(self) && wf_page(rhs) }
    open spec fn sub_spec(self, rhs: Page<S>) -> u64 { 0 }
}
//@ end

//@ fn src/structures/paging/page.rs | impl<S: PageSize> Add<u64> for Page<S> | add
//@ obligation C07 C07.Page_add_u64.exact_or_panic
//@ obligation C03 C03.Page_add_u64.valid
//@ A
    ensures r.start_address.0 == self.start_address.0 + rhs * S::SIZE, wf_page(r),
//@ B
    ensures
        self.start_address.0 + rhs * S::SIZE <= u64::MAX, canonical((self.start_address.0 + rhs * S::SIZE) as u64),
        r.start_address.0 == self.start_address.0 + rhs * S::SIZE, wf_page(r),
//@ proof
        lemma_valid_size(S::SIZE);
        lemma_mult_of(rhs as int, S::SIZE as int);
        lemma_mult_arith(self.start_address.0 as int, rhs * S::SIZE, S::SIZE as int);
//@ end

//@ fn src/structures/paging/page.rs | impl<S: PageSize> AddAssign<u64> for Page<S> | add_assign
//@ obligation C07 C07.Page_add_assign_u64.exact_or_panic
//@ obligation C03 C03.Page_add_assign_u64.valid
//@ A
    ensures final(self).start_address.0 == old(self).start_address.0 + rhs * S::SIZE, wf_page(*final(self)),
//@ B
    ensures
        old(self).start_address.0 + rhs * S::SIZE <= u64::MAX, canonical((old(self).start_address.0 + rhs * S::SIZE) as u64),
        final(self).start_address.0 == old(self).start_address.0 + rhs * S::SIZE, wf_page(*final(self)),
//@ end

//@ fn src/structures/paging/page.rs | impl<S: PageSize> Sub<u64> for Page<S> | sub
//@ obligation C07 C07.Page_sub_u64.exact_or_panic
//@ obligation C03 C03.Page_sub_u64.valid
//@ A
    ensures r.start_address.0 == self.start_address.0 - rhs * S::SIZE, wf_page(r),
//@ B
    ensures
        self.start_address.0 - rhs * S::SIZE >= 0, canonical((self.start_address.0 - rhs * S::SIZE) as u64),
        r.start_address.0 == self.start_address.0 - rhs * S::SIZE, wf_page(r),
//@ proof
        lemma_valid_size(S::SIZE);
        lemma_mult_of(rhs as int, S::SIZE as int);
        lemma_mult_arith(self.start_address.0 as int, rhs * S::SIZE, S::SIZE as int);
//@ end

//@ fn src/structures/paging/page.rs | impl<S: PageSize> SubAssign<u64> for Page<S> | sub_assign
//@ obligation C07 C07.Page_sub_assign_u64.exact_or_panic
//@ obligation C03 C03.Page_sub_assign_u64.valid
//@ A
    ensures final(self).start_address.0 == old(self).start_address.0 - rhs * S::SIZE, wf_page(*final(self)),
//@ B
    ensures
        old(self).start_address.0 - rhs * S::SIZE >= 0, canonical((old(self).start_address.0 - rhs * S::SIZE) as u64),
        final(self).start_address.0 == old(self).start_address.0 - rhs * S::SIZE, wf_page(*final(self)),
//@ end

//@ fn src/structures/paging/page.rs | impl<S: PageSize> Sub<Self> for Page<S> | sub
//@ obligation C07 C07.Page_sub_Page.exact_pages_or_panic
//@ A
    ensures r * S::SIZE == self.start_address.0 - rhs.start_address.0, r as int == (self.start_address.0 - rhs.start_address.0) / (S::SIZE as int),
//@ B
    ensures self.start_address.0 >= rhs.start_address.0, r * S::SIZE == self.start_address.0 - rhs.start_address.0,
        r as int == (self.start_address.0 - rhs.start_address.0) / (S::SIZE as int),
//@ proof
        lemma_valid_size(S::SIZE);
        if self.start_address.0 >= rhs.start_address.0 {
            lemma_mult_arith(rhs.start_address.0 as int, self.start_address.0 as int, S::SIZE as int);
            lemma_mult_div(self.start_address.0 - rhs.start_address.0, S::SIZE as int);
        }
//@ end

// ---------------------------------------------------------------------------
// ranges (C07): a range iterates exactly what it counts

//@ verbatim
pub open spec fn wf_range<S: PageSize>(r: PageRange<S>) -> bool {
    wf_page(r.start) && wf_page(r.end) && same_half(r.start.start_address.0, r.end.start_address.0)
}
pub open spec fn wf_range_incl<S: PageSize>(r: PageRangeInclusive<S>) -> bool {
    wf_page(r.start) && wf_page(r.end) && same_half(r.start.start_address.0, r.end.start_address.0)
}
/// the start addresses a range stands for, in ascending order
pub open spec fn view_range<S: PageSize>(r: PageRange<S>) -> Seq<int> {
    seq_excl(r.start.start_address.0 as int, r.end.start_address.0 as int, S::SIZE as int)
}
pub open spec fn view_range_incl<S: PageSize>(r: PageRangeInclusive<S>) -> Seq<int> {
    seq_incl(r.start.start_address.0 as int, r.end.start_address.0 as int, S::SIZE as int)
}

/// C07 closure lemma: the i-th element of a range's contents is start + i pages, so the contents are exactly the
/// pages from start to end in ascending order and there are len() of them (by definition of seq_excl/seq_incl);
/// `next` peels off element 0 (contracts below), hence by induction on the number of calls the iterator yields
/// view[0], view[1], ... and then None.
pub proof fn lemma_range_contents(lo: int, hi: int, s: int, i: int)
    requires s > 0, 0 <= i < seq_incl(lo, hi, s).len()
    ensures seq_incl(lo, hi, s)[i] == lo + i * s, lo + i * s <= hi,
        i + 1 < seq_incl(lo, hi, s).len() ==> seq_incl(lo, hi, s)[i] < seq_incl(lo, hi, s)[i + 1],
{
    lemma_fundamental_div_mod(hi - lo, s);
    let n = (hi - lo) / s;
    lemma_mul_is_commutative(s, n);
    lemma_mul_inequality(i, n, s);
    lemma_mul_is_distributive_add_other_way(s, i, 1);
}
//@ end

//@ fn src/structures/paging/page.rs | impl<S: PageSize> PageRange<S> | is_empty
//@ obligation C07 C07.PageRange_is_empty.iff_no_items
//@ A
    requires valid_size(S::SIZE), wf_page(self.start), wf_page(self.end),
    ensures r == (self.start.start_address.0 >= self.end.start_address.0), r == (view_range(*self).len() == 0),
//@ proof
        lemma_valid_size(S::SIZE);
        if self.start.start_address.0 < self.end.start_address.0 {
            lemma_seq_excl_step(self.start.start_address.0 as int, self.end.start_address.0 as int, S::SIZE as int);
        }
//@ end

//@ fn src/structures/paging/page.rs | impl<S: PageSize> PageRange<S> | len
//@ obligation C07 C07.PageRange_len.equals_item_count
//@ A
    requires valid_size(S::SIZE), wf_range(*self),
    ensures r == view_range(*self).len(),
//@ proof
        lemma_valid_size(S::SIZE);
        if self.start.start_address.0 < self.end.start_address.0 {
            lemma_seq_excl_step(self.start.start_address.0 as int, self.end.start_address.0 as int, S::SIZE as int);
        }
//@ end

//@ fn src/structures/paging/page.rs | impl<S: PageSize> PageRange<S> | size
//@ obligation C07 C07.PageRange_size.len_times_page_size
//@ A
    requires valid_size(S::SIZE), wf_range(*self),
    ensures r == view_range(*self).len() * S::SIZE,
//@ proof
        lemma_valid_size(S::SIZE);
        if self.start.start_address.0 < self.end.start_address.0 {
            lemma_seq_excl_step(self.start.start_address.0 as int, self.end.start_address.0 as int, S::SIZE as int);
            lemma_mult_arith(self.start.start_address.0 as int, self.end.start_address.0 as int, S::SIZE as int);
            lemma_mult_div(self.end.start_address.0 - self.start.start_address.0, S::SIZE as int);
            lemma_mul_is_commutative(S::SIZE as int, (self.end.start_address.0 - self.start.start_address.0) / (S::SIZE as int));
        }
//@ end

//@ fn src/structures/paging/page.rs | impl<S: PageSize> Iterator for PageRange<S> | next
//@ as impl<S: PageSize> PageRange<S>
//@ sub /Self::Item/ => Page<S>
//@ obligation C07 C07.PageRange_next.yields_first_and_shrinks_no_panic
//@ A
    requires valid_size(S::SIZE), wf_range(*old(self)),
    ensures
        wf_range(*final(self)),
        view_range(*old(self)).len() == 0 ==> r is None && *final(self) == *old(self),
        view_range(*old(self)).len() > 0 ==> r is Some
            && r->Some_0.start_address.0 as int == view_range(*old(self))[0]
            && r->Some_0 == old(self).start
            && view_range(*final(self)) == view_range(*old(self)).subrange(1, view_range(*old(self)).len() as int),
//@ proof
        lemma_valid_size(S::SIZE);
        if old(self).start.start_address.0 < old(self).end.start_address.0 {
            lemma_seq_excl_step(old(self).start.start_address.0 as int, old(self).end.start_address.0 as int, S::SIZE as int);
            lemma_next_page_in_half(old(self).start.start_address.0, old(self).end.start_address.0, S::SIZE);
            assert(1 * S::SIZE == S::SIZE as int);
        }
//@ end

//@ fn src/structures/paging/page.rs | impl PageRange<Size2MiB> | as_4kib_page_range
//@ obligation C07 C07.PageRange_as_4kib_page_range.same_bytes
//@ A
    requires wf_range(self),
    ensures
        r.start.start_address.0 == self.start.start_address.0, r.end.start_address.0 == self.end.start_address.0,
        wf_range(r),
//@ proof
        lemma_page_sizes();
        lemma_mask_is_mult(self.start.start_address.0); lemma_mask_is_mult(self.end.start_address.0);
        let a = self.start.start_address.0; let b = self.end.start_address.0;
        assert(a & 0x1f_ffff == 0 ==> a & 0xfff == 0) by (bit_vector);
        assert(b & 0x1f_ffff == 0 ==> b & 0xfff == 0) by (bit_vector);
//@ end

//@ fn src/structures/paging/page.rs | impl<S: PageSize> PageRangeInclusive<S> | is_empty
//@ obligation C07 C07.PageRangeInclusive_is_empty.iff_no_items
//@ A
    requires valid_size(S::SIZE), wf_range_incl(*self),
    ensures r == (self.start.start_address.0 > self.end.start_address.0), r == (view_range_incl(*self).len() == 0),
//@ proof
        lemma_valid_size(S::SIZE);
        if self.start.start_address.0 <= self.end.start_address.0 {
            lemma_seq_incl_step(self.start.start_address.0 as int, self.end.start_address.0 as int, S::SIZE as int);
        }
//@ end

//@ fn src/structures/paging/page.rs | impl<S: PageSize> PageRangeInclusive<S> | len
//@ obligation C07 C07.PageRangeInclusive_len.equals_item_count
//@ A
    requires valid_size(S::SIZE), wf_range_incl(*self),
    ensures r == view_range_incl(*self).len(),
//@ proof
        lemma_valid_size(S::SIZE);
        if self.start.start_address.0 <= self.end.start_address.0 {
            lemma_seq_incl_step(self.start.start_address.0 as int, self.end.start_address.0 as int, S::SIZE as int);
            lemma_mult_arith(self.start.start_address.0 as int, self.end.start_address.0 as int, S::SIZE as int);
            lemma_mult_div(self.end.start_address.0 - self.start.start_address.0, S::SIZE as int);
            lemma_len_bound(self.start.start_address.0, self.end.start_address.0, S::SIZE);
        }
//@ end

//@ verbatim
pub proof fn lemma_len_bound(a: u64, b: u64, s: u64)
    requires valid_size(s), a <= b
    ensures (b - a) / s as int <= 0xf_ffff_ffff_ffff, ((b - a) / s as int) * s <= b - a,
{
    let d = (b - a) as int;
    lemma_fundamental_div_mod(d, s as int);
    lemma_mul_is_commutative(s as int, d / s as int);
    assert(d / (s as int) <= d / 4096) by { lemma_div_is_ordered_by_denominator(d, 4096, s as int); }
}
//@ end

//@ fn src/structures/paging/page.rs | impl<S: PageSize> PageRangeInclusive<S> | size
//@ obligation C07 C07.PageRangeInclusive_size.len_times_page_size
//@ A
    requires valid_size(S::SIZE), wf_range_incl(*self),
    ensures r == view_range_incl(*self).len() * S::SIZE,
//@ proof
        lemma_valid_size(S::SIZE);
        if self.start.start_address.0 <= self.end.start_address.0 {
            lemma_seq_incl_step(self.start.start_address.0 as int, self.end.start_address.0 as int, S::SIZE as int);
            lemma_mult_arith(self.start.start_address.0 as int, self.end.start_address.0 as int, S::SIZE as int);
            lemma_mult_div(self.end.start_address.0 - self.start.start_address.0, S::SIZE as int);
            let n = (self.end.start_address.0 - self.start.start_address.0) / (S::SIZE as int);
            lemma_mul_is_commutative(S::SIZE as int, n + 1);
            lemma_mul_is_distributive_add_other_way(S::SIZE as int, n, 1);
            // same half: the byte span is below 2^47, so (n + 1) * SIZE <= 2^47
            lemma_canonical_halves(self.start.start_address.0); lemma_canonical_halves(self.end.start_address.0);
        }
//@ end

//@ verbatim
/// everything PageRangeInclusive::next needs about one step of an inclusive range inside one canonical half
pub proof fn lemma_incl_next(s0: u64, e0: u64, size: u64)
    requires valid_size(size), canonical(s0), canonical(e0), same_half(s0, e0), is_mult(s0 as int, size as int), is_mult(e0 as int, size as int), s0 <= e0
    ensures
        canonical(u64::MAX), canonical(0x7fff_ffff_ffffu64),
        canonical((u64::MAX - (size - 1)) as u64), canonical((0x7fff_ffff_ffff - (size - 1)) as u64),
        size >= 1, 1 * size == size as int,
        s0 < e0 ==> s0 + size <= e0 && canonical((s0 + size) as u64) && same_half((s0 + size) as u64, e0)
            && s0 != u64::MAX - (size - 1),
        s0 == e0 && s0 < u64::MAX - (size - 1) && s0 != 0x7fff_ffff_ffff - (size - 1) ==>
            s0 + size <= u64::MAX && canonical((s0 + size) as u64) && same_half((s0 + size) as u64, e0) && is_mult(s0 + size, size as int),
        s0 == e0 && !(s0 < u64::MAX - (size - 1) && s0 != 0x7fff_ffff_ffff - (size - 1)) ==>
            e0 >= size && canonical((e0 - size) as u64) && same_half(s0, (e0 - size) as u64) && is_mult(e0 - size, size as int),
        is_mult(s0 + size, size as int),
        seq_incl(s0 as int, e0 as int, size as int).len() >= 1,
        seq_incl(s0 as int, e0 as int, size as int)[0] == s0,
        seq_incl(s0 + size, e0 as int, size as int) == seq_incl(s0 as int, e0 as int, size as int).subrange(1, seq_incl(s0 as int, e0 as int, size as int).len() as int),
        s0 == e0 ==> seq_incl(s0 as int, e0 - size, size as int) == seq_incl(s0 as int, e0 as int, size as int).subrange(1, seq_incl(s0 as int, e0 as int, size as int).len() as int),
{
    lemma_valid_size(size);
    assert(canonical(u64::MAX) && canonical(0x7fff_ffff_ffffu64)) by (bit_vector);
    lemma_canonical_halves(s0); lemma_canonical_halves(e0);
    lemma_canonical_halves((u64::MAX - (size - 1)) as u64);
    lemma_canonical_halves((0x7fff_ffff_ffff - (size - 1)) as u64);
    lemma_seq_incl_step(s0 as int, e0 as int, size as int);
    lemma_count(s0 as int, e0 as int, size as int);
    lemma_mult_arith(s0 as int, size as int, size as int);
    if s0 < e0 {
        lemma_next_page_in_half(s0, e0, size);
    } else {
        let full = seq_incl(s0 as int, e0 as int, size as int);
        assert(full.len() == 1);
        assert(seq_incl(s0 as int, e0 - size, size as int) =~= full.subrange(1, 1));
        // s0 + size and the half boundaries are all multiples of size
        lemma_mult_arith(s0 as int, 0x8000_0000_0000int, size as int);
        lemma_mult_arith(s0 as int, 0x1_0000_0000_0000_0000int, size as int);
        lemma_mult_arith(0int, s0 as int, size as int);
        lemma_mult_arith(0xffff_8000_0000_0000int, s0 as int, size as int);
        if s0 + size <= u64::MAX { lemma_canonical_halves((s0 + size) as u64); }
        if s0 >= size { lemma_canonical_halves((s0 - size) as u64); }
    }
}
//@ end

//@ fn src/structures/paging/page.rs | impl<S: PageSize> Iterator for PageRangeInclusive<S> | next
//@ as impl<S: PageSize> PageRangeInclusive<S>
//@ sub /Self::Item/ => Page<S>
//@ obligation C07 C07.PageRangeInclusive_next.yields_first_and_shrinks_no_panic
//@ A
    requires valid_size(S::SIZE), wf_range_incl(*old(self)),
    ensures
        wf_range_incl(*final(self)),
        view_range_incl(*old(self)).len() == 0 ==> r is None && *final(self) == *old(self),
        view_range_incl(*old(self)).len() > 0 ==> r is Some
            && r->Some_0.start_address.0 as int == view_range_incl(*old(self))[0]
            && r->Some_0 == old(self).start
            && view_range_incl(*final(self)) == view_range_incl(*old(self)).subrange(1, view_range_incl(*old(self)).len() as int),
//@ proof
        if old(self).start.start_address.0 <= old(self).end.start_address.0 {
            lemma_incl_next(old(self).start.start_address.0, old(self).end.start_address.0, S::SIZE);
        }
//@ end
