//@ unit tlb -- InvlpgbFlushBuilder::flush chunking loop of src/instructions/tlb.rs (C11, unbounded)

//@ struct src/instructions/tlb.rs Invlpgb
//@ struct src/instructions/tlb.rs InvlpgbFlushBuilder
//@ struct src/instructions/tlb.rs Pcid

//@ verbatim
use core::cmp;
/// the pages [pos, pos + n*size) one broadcast request is taken to cover (the code's own reading: a request with
/// count c covers max(c, 1) pages starting at its address)
pub open spec fn req_pages(count: u16) -> int { if count == 0 { 1 } else { count as int } }

/// ghost record of one request: (rank of the start address, pages covered)
pub type Req = (int, int);

/// the requests tile [from, to) contiguously in steps of `size`
pub open spec fn tiles(log: Seq<Req>, from: int, to: int, size: int) -> bool
    decreases log.len()
{
    if log.len() == 0 { from == to }
    else { log[0].0 == from && log[0].1 >= 1 && tiles(log.subrange(1, log.len() as int), from + log[0].1 * size, to, size) }
}

pub proof fn lemma_tiles_push(log: Seq<Req>, from: int, mid: int, n: int, size: int)
    requires tiles(log, from, mid, size), n >= 1
    ensures tiles(log.push((mid, n)), from, mid + n * size, size)
    decreases log.len()
{
    if log.len() == 0 {
        let l2 = log.push((mid, n));
        assert(l2.subrange(1, 1).len() == 0);
        assert(tiles(l2.subrange(1, l2.len() as int), mid + n * size, mid + n * size, size));
    } else {
        let rest = log.subrange(1, log.len() as int);
        lemma_tiles_push(rest, from + log[0].1 * size, mid, n, size);
        let l2 = log.push((mid, n));
        assert(l2.subrange(1, l2.len() as int) =~= rest.push((mid, n)));
    }
}
//@ end

//@ verbatim
pub proof fn lemma_page_start_of_upper_half(size: u64)
    requires valid_size(size)
    ensures align_down_spec(0xffff_8000_0000_0000u64, size) == 0xffff_8000_0000_0000u64, pos(0xffff_8000_0000_0000u64) == 0x8000_0000_0000,
{
    assert(align_down_spec(0xffff_8000_0000_0000u64, 4096) == 0xffff_8000_0000_0000u64) by (bit_vector);
    assert(align_down_spec(0xffff_8000_0000_0000u64, 0x20_0000) == 0xffff_8000_0000_0000u64) by (bit_vector);
    assert(align_down_spec(0xffff_8000_0000_0000u64, 0x4000_0000) == 0xffff_8000_0000_0000u64) by (bit_vector);
    assert(0xffff_8000_0000_0000u64 & 0xffff_ffff_ffff == 0x8000_0000_0000u64) by (bit_vector);
}

pub proof fn lemma_steps_fit(s: u64, e: u64, size: u64)
    requires valid_size(size)
    ensures pos(s) <= pos(e) ==> 0 <= (pos(e) - pos(s)) / (size as int) < 0x1_0000_0000_0000,
{
    lemma_canonical_halves(s); lemma_canonical_halves(e);
    if pos(s) <= pos(e) {
        let d = pos(e) - pos(s);
        lemma_fundamental_div_mod(d, size as int);
        lemma_div_pos_is_pos(d, size as int);
        lemma_div_is_ordered_by_denominator(d, 1, size as int);
        lemma_div_basics(d);
    }
}

/// arithmetic of one iteration of the chunking loop
pub proof fn lemma_flush_step(s: u64, e: u64, size: u64, count: u16, max: u16)
    requires
        valid_size(size), canonical(s), canonical(e), is_mult(s as int, size as int), is_mult(e as int, size as int),
        s < e,
        count as int <= (pos(e) - pos(s)) / (size as int),
        s < 0xffff_8000_0000_0000 ==> count as int <= (pos(0xffff_8000_0000_0000u64) - pos(s)) / (size as int),
    ensures
        req_pages(count) >= 1,
        pos(s) + req_pages(count) * size <= pos(e),
        pos(s) + req_pages(count) * size < 0x1_0000_0000_0000,
        s < 0x8000_0000_0000 ==> s + count * size <= 0x8000_0000_0000,
        count * size >= 0,
{
    lemma_valid_size(size);
    lemma_canonical_halves(s); lemma_canonical_halves(e);
    lemma_pos_order(s, e);
    lemma_pos_mult(s, size); lemma_pos_mult(e, size);
    let sz = size as int;
    let d = pos(e) - pos(s);
    lemma_mult_arith(pos(s), pos(e), sz);
    lemma_mult_div(d, sz);
    let n1 = d / sz;
    assert(n1 >= 1);
    // count * size <= n1 * size == d
    lemma_mul_inequality(count as int, n1, sz);
    lemma_mul_inequality(req_pages(count), n1, sz);
    lemma_mul_nonnegative(count as int, sz);
    assert(canonical(0xffff_8000_0000_0000u64)) by (bit_vector);
    lemma_canonical_halves(0xffff_8000_0000_0000u64);
    if s < 0x8000_0000_0000 {
        let d2 = 0x8000_0000_0000 - pos(s);
        lemma_mult_arith(pos(s), 0x8000_0000_0000int, sz);
        lemma_mult_div(d2, sz);
        lemma_mul_inequality(count as int, d2 / sz, sz);
    }
}
//@ end

//@ fn src/instructions/tlb.rs |  | flush_broadcast
//@ bodyless
//@ A
    requires
        va_and_count is Some ==> valid_size(S::SIZE) && wf_page(va_and_count->Some_0.0)
            // a request that starts in the lower half ends at or before the non-canonical gap
            && (va_and_count->Some_0.0.start_address.0 < 0x8000_0000_0000 ==>
                    va_and_count->Some_0.0.start_address.0 + va_and_count->Some_0.1 * S::SIZE <= 0x8000_0000_0000),
//@ end

//@ fn src/instructions/tlb.rs | impl<'a, S> InvlpgbFlushBuilder<'a, S> where S: NotGiantPageSize, | flush
//@ obligation C11 C11.InvlpgbFlushBuilder_flush.requests_tile_range_within_limits_no_gap
//@ sub /while !pages\.is_empty\(\) \{/ => let ghost orig = pages; let ghost mut log: Seq<Req> = Seq::empty(); proof { lemma_pos_order(pages.start.start_address.0, pages.end.start_address.0); } while !pages.is_empty() { proof { assert(canonical(0xffff_8000_0000_0000u64)) by (bit_vector); lemma_pos_order(pages.start.start_address.0, pages.end.start_address.0); lemma_page_start_of_upper_half(S::SIZE); lemma_pos_order(pages.start.start_address.0, 0xffff_8000_0000_0000u64); lemma_steps_fit(pages.start.start_address.0, pages.end.start_address.0, S::SIZE); lemma_steps_fit(pages.start.start_address.0, 0xffff_8000_0000_0000u64, S::SIZE); }
//@ sub /let count = cmp::min\(count, self\.invlpgb\.invlpgb_count_max\);/ => let count = cmp::min(count, self.invlpgb.invlpgb_count_max); proof { lemma_flush_step(pages.start.start_address.0, pages.end.start_address.0, S::SIZE, count, self.invlpgb.invlpgb_count_max); assert(count <= self.invlpgb.invlpgb_count_max && count <= 65535); }
//@ sub /(pages\.start =\s*Page::forward_checked_impl\(pages\.start, usize::from\(inc_count\)\)\.unwrap\(\);)/ => let ghost before = pages.start; \1 proof { lemma_tiles_push(log, pos(orig.start.start_address.0), pos(before.start_address.0), req_pages(count), S::SIZE as int); log = log.push((pos(before.start_address.0), req_pages(count))); }
//@ sub /\}(\s*)\} else \{/ => } proof { lemma_pos_order(pages.start.start_address.0, pages.end.start_address.0); assert(orig.start.start_address.0 < orig.end.start_address.0 ==> tiles(log, pos(orig.start.start_address.0), pos(orig.end.start_address.0), S::SIZE as int)); }\1} else {
//@ A
    requires
        valid_size(S::SIZE),
        self.page_range is Some ==> wf_page(self.page_range->Some_0.start) && wf_page(self.page_range->Some_0.end),
//@ loop 0
                invariant
                    valid_size(S::SIZE), wf_page(pages.start), wf_page(pages.end), wf_page(orig.start),
                    pages.end == orig.end,
                    pos(orig.start.start_address.0) <= pos(pages.start.start_address.0),
                    orig.start.start_address.0 < orig.end.start_address.0 ==> pos(pages.start.start_address.0) <= pos(pages.end.start_address.0),
                    // every request so far: contiguous tiling of [orig.start, pages.start)
                    tiles(log, pos(orig.start.start_address.0), pos(pages.start.start_address.0), S::SIZE as int),
                decreases pos(pages.end.start_address.0) - pos(pages.start.start_address.0),
//@ end
