//@ unit addr  -- contracts for /repo/src/addr.rs

//@ const src/addr.rs ADDRESS_SPACE_SIZE
//@ struct src/addr.rs VirtAddr
//@ struct src/addr.rs PhysAddr
//@ struct src/addr.rs VirtAddrNotValid
//@ struct src/addr.rs PhysAddrNotValid

//@ verbatim
// derive(PartialEq, PartialOrd) on a one-field tuple struct compares the field (ASSUMED; cross-checked by E1)
impl PartialEqSpecImpl for VirtAddr {
    open spec fn obeys_eq_spec() -> bool { true }
    open spec fn eq_spec(&self, other: &VirtAddr) -> bool { self.0 == other.0 }
}
impl PartialOrdSpecImpl for VirtAddr {
    open spec fn obeys_partial_cmp_spec() -> bool { true }
    open spec fn partial_cmp_spec(&self, other: &VirtAddr) -> Option<core::cmp::Ordering> {
        if self.0 < other.0 { Some(core::cmp::Ordering::Less) }
        else if self.0 == other.0 { Some(core::cmp::Ordering::Equal) }
        else { Some(core::cmp::Ordering::Greater) }
    }
}
impl PartialEqSpecImpl for PhysAddr {
    open spec fn obeys_eq_spec() -> bool { true }
    open spec fn eq_spec(&self, other: &PhysAddr) -> bool { self.0 == other.0 }
}
impl PartialOrdSpecImpl for PhysAddr {
    open spec fn obeys_partial_cmp_spec() -> bool { true }
    open spec fn partial_cmp_spec(&self, other: &PhysAddr) -> Option<core::cmp::Ordering> {
        if self.0 < other.0 { Some(core::cmp::Ordering::Less) }
        else if self.0 == other.0 { Some(core::cmp::Ordering::Equal) }
        else { Some(core::cmp::Ordering::Greater) }
    }
}

/// type invariants
pub open spec fn wf_v(v: VirtAddr) -> bool { canonical(v.0) }
pub open spec fn wf_p(p: PhysAddr) -> bool { phys_ok(p.0) }

/// greatest multiple of align (a power of two) not above a
pub open spec fn align_down_spec(a: u64, align: u64) -> u64 { a & !sub(align, 1) }

pub proof fn lemma_align_down(a: u64, align: u64)
    requires pow2_u64(align)
    ensures
        align_down_spec(a, align) <= a,
        a - align_down_spec(a, align) < align,
        is_mult(align_down_spec(a, align) as int, align as int),
        // greatest: any multiple of align that is <= a is <= the result
        forall|m: u64| #[trigger] is_mult(m as int, align as int) && m <= a ==> m <= align_down_spec(a, align),
        is_mult(a as int, align as int) <==> align_down_spec(a, align) == a,
        align_down_spec(a, align) as int == a as int - (a as int % align as int),
{
    lemma_pow2_mask_mod(a, align);
    lemma_floor_multiple(a as int, align as int);
}

/// least multiple of align not below a, as a mathematical integer (may be 2^64)
pub open spec fn align_up_int(a: u64, align: u64) -> int {
    if a as int % align as int == 0 { a as int } else { a as int - (a as int % align as int) + align as int }
}

pub proof fn lemma_align_up(a: u64, align: u64)
    requires pow2_u64(align)
    ensures
        (a & sub(align, 1)) == 0 <==> a as int % align as int == 0,
        (a & sub(align, 1)) != 0 ==> (a | sub(align, 1)) as int + 1 == align_up_int(a, align),
        align_up_int(a, align) >= a,
        align_up_int(a, align) - a < align,
        is_mult(align_up_int(a, align), align as int),
        forall|m: int| #[trigger] is_mult(m, align as int) && m >= a ==> m >= align_up_int(a, align),
{
    lemma_pow2_mask_mod(a, align);
    lemma_floor_multiple(a as int, align as int);
}
//@ end

// ---------------------------------------------------------------------------
// free functions

//@ fn src/addr.rs |  | align_down
//@ obligation C06 C06.align_down.greatest_multiple
//@ A
    requires pow2_u64(align),
    ensures
        r == align_down_spec(addr, align),
        r <= addr, addr - r < align, is_mult(r as int, align as int),
        forall|m: u64| #[trigger] is_mult(m as int, align as int) && m <= addr ==> m <= r,
//@ B
    ensures
        pow2_u64(align),
        r == align_down_spec(addr, align),
        r <= addr, addr - r < align, is_mult(r as int, align as int),
        forall|m: u64| #[trigger] is_mult(m as int, align as int) && m <= addr ==> m <= r,
//@ proof
        if pow2_u64(align) { lemma_align_down(addr, align); }
//@ end

//@ fn src/addr.rs |  | align_up
//@ obligation C06 C06.align_up.least_multiple
//@ A
    requires pow2_u64(align), align_up_int(addr, align) <= u64::MAX,
    ensures
        r as int == align_up_int(addr, align),
        r >= addr, r - addr < align, is_mult(r as int, align as int),
        forall|m: int| #[trigger] is_mult(m, align as int) && m >= addr ==> m >= r,
//@ B
    ensures
        pow2_u64(align), align_up_int(addr, align) <= u64::MAX,
        r as int == align_up_int(addr, align),
        r >= addr, r - addr < align, is_mult(r as int, align as int),
        forall|m: int| #[trigger] is_mult(m, align as int) && m >= addr ==> m >= r,
//@ proof
        if pow2_u64(align) { lemma_align_up(addr, align); }
//@ end

// ---------------------------------------------------------------------------
// VirtAddr constructors

//@ fn src/addr.rs | impl VirtAddr | new_truncate
//@ obligation C03 C03.VirtAddr_new_truncate.sign_extends_idempotent_low48
//@ A
    ensures
        r.0 == sext48(addr), wf_v(r),
        canonical(addr) ==> r.0 == addr,
        r.0 == sext48(addr & 0xffff_ffff_ffff),
        sext48(r.0) == r.0,
//@ proof
        lemma_sext48(addr);
//@ end

//@ fn src/addr.rs | impl VirtAddr | try_new
//@ obligation C03 C03.VirtAddr_try_new.ok_iff_canonical_unchanged
//@ A
    ensures
        r is Ok <==> canonical(addr),
        r is Ok ==> r->Ok_0.0 == addr && wf_v(r->Ok_0),
        r is Err ==> r->Err_0.0 == addr,
//@ proof
        lemma_sext48(addr);
//@ end

//@ fn src/addr.rs | impl VirtAddr | new
//@ obligation C03 C03.VirtAddr_new.returns_iff_canonical
//@ A
    requires canonical(addr),
    ensures r.0 == addr, wf_v(r),
//@ B
    ensures canonical(addr), r.0 == addr, wf_v(r),
//@ end

//@ fn src/addr.rs | impl VirtAddr | new_unsafe
//@ A
    requires canonical(addr),
    ensures r.0 == addr,
//@ end

//@ fn src/addr.rs | impl VirtAddr | zero
//@ obligation C03 C03.VirtAddr_zero.valid
//@ A
    ensures r.0 == 0, wf_v(r),
//@ proof
        assert(canonical(0u64)) by (bit_vector);
//@ end

//@ fn src/addr.rs | impl VirtAddr | as_u64
//@ A
    ensures r == self.0,
//@ end
