//@ unit addr  -- contracts for /repo/src/addr.rs

//@ const src/addr.rs ADDRESS_SPACE_SIZE
//@ struct src/addr.rs VirtAddr
//@ struct src/addr.rs PhysAddr
//@ struct src/addr.rs VirtAddrNotValid
//@ struct src/addr.rs PhysAddrNotValid

//@ verbatim
// derive(PartialEq, PartialOrd) on a one-field tuple struct compares the field (ASSUMED; cross-checked by E1)
impl PartialEqSpecImpl for VirtAddr {
    open spec fn obeys_eq_spec() -> bool { true }
    open spec fn eq_spec(&self, other: &VirtAddr) -> bool { self.0 == other.0 }
}
impl PartialOrdSpecImpl for VirtAddr {
    open spec fn obeys_partial_cmp_spec() -> bool { true }
    open spec fn partial_cmp_spec(&self, other: &VirtAddr) -> Option<core::cmp::Ordering> {
        if self.0 < other.0 { Some(core::cmp::Ordering::Less) }
        else if self.0 == other.0 { Some(core::cmp::Ordering::Equal) }
        else { Some(core::cmp::Ordering::Greater) }
    }
}
impl PartialEqSpecImpl for PhysAddr {
    open spec fn obeys_eq_spec() -> bool { true }
    open spec fn eq_spec(&self, other: &PhysAddr) -> bool { self.0 == other.0 }
}
impl PartialOrdSpecImpl for PhysAddr {
    open spec fn obeys_partial_cmp_spec() -> bool { true }
    open spec fn partial_cmp_spec(&self, other: &PhysAddr) -> Option<core::cmp::Ordering> {
        if self.0 < other.0 { Some(core::cmp::Ordering::Less) }
        else if self.0 == other.0 { Some(core::cmp::Ordering::Equal) }
        else { Some(core::cmp::Ordering::Greater) }
    }
}

/// type invariants
pub open spec fn wf_v(v: VirtAddr) -> bool { canonical(v.0) }
pub open spec fn wf_p(p: PhysAddr) -> bool { phys_ok(p.0) }

/// greatest multiple of align (a power of two) not above a
pub open spec fn align_down_spec(a: u64, align: u64) -> u64 { a & !sub(align, 1) }

pub proof fn lemma_align_down(a: u64, align: u64)
    requires pow2_u64(align)
    ensures
        align_down_spec(a, align) <= a,
        a - align_down_spec(a, align) < align,
        is_mult(align_down_spec(a, align) as int, align as int),
        // greatest: any multiple of align that is <= a is <= the result
        forall|m: u64| #[trigger] is_mult(m as int, align as int) && m <= a ==> m <= align_down_spec(a, align),
        is_mult(a as int, align as int) <==> align_down_spec(a, align) == a,
        align_down_spec(a, align) as int == a as int - (a as int % align as int),
{
    reveal(is_mult);
    lemma_pow2_mask_mod(a, align);
    lemma_floor_multiple(a as int, align as int);
}

/// least multiple of align not below a, as a mathematical integer (may be 2^64)
pub open spec fn align_up_int(a: u64, align: u64) -> int {
    if a as int % align as int == 0 { a as int } else { a as int - (a as int % align as int) + align as int }
}

pub proof fn lemma_align_up(a: u64, align: u64)
    requires pow2_u64(align)
    ensures
        (a & sub(align, 1)) == 0 <==> a as int % align as int == 0,
        (a & sub(align, 1)) != 0 ==> (a | sub(align, 1)) as int + 1 == align_up_int(a, align),
        align_up_int(a, align) >= a,
        align_up_int(a, align) - a < align,
        is_mult(align_up_int(a, align), align as int),
        forall|m: int| #[trigger] is_mult(m, align as int) && m >= a ==> m >= align_up_int(a, align),
{
    reveal(is_mult);
    lemma_pow2_mask_mod(a, align);
    lemma_floor_multiple(a as int, align as int);
}
//@ end

// ---------------------------------------------------------------------------
// free functions

//@ fn src/addr.rs |  | align_down
//@ obligation C06 C06.align_down.greatest_multiple
//@ A
    requires pow2_u64(align),
    ensures
        r == align_down_spec(addr, align),
        r <= addr, addr - r < align, is_mult(r as int, align as int),
        forall|m: u64| #[trigger] is_mult(m as int, align as int) && m <= addr ==> m <= r,
//@ B
    ensures
        pow2_u64(align),
        r == align_down_spec(addr, align),
        r <= addr, addr - r < align, is_mult(r as int, align as int),
        forall|m: u64| #[trigger] is_mult(m as int, align as int) && m <= addr ==> m <= r,
//@ proof
        if pow2_u64(align) { lemma_align_down(addr, align); }
//@ end

//@ fn src/addr.rs |  | align_up
//@ obligation C06 C06.align_up.least_multiple
//@ A
    requires pow2_u64(align), align_up_int(addr, align) <= u64::MAX,
    ensures
        r as int == align_up_int(addr, align),
        r >= addr, r - addr < align, is_mult(r as int, align as int),
        forall|m: int| #[trigger] is_mult(m, align as int) && m >= addr ==> m >= r,
//@ B
    ensures
        pow2_u64(align), align_up_int(addr, align) <= u64::MAX,
        r as int == align_up_int(addr, align),
        r >= addr, r - addr < align, is_mult(r as int, align as int),
        forall|m: int| #[trigger] is_mult(m, align as int) && m >= addr ==> m >= r,
//@ proof
        if pow2_u64(align) { lemma_align_up(addr, align); }
//@ end

// ---------------------------------------------------------------------------
// VirtAddr constructors

//@ fn src/addr.rs | impl VirtAddr | new_truncate
//@ obligation C03 C03.VirtAddr_new_truncate.sign_extends_idempotent_low48
//@ A
    ensures
        r.0 == sext48(addr), wf_v(r),
        canonical(addr) ==> r.0 == addr,
        r.0 == sext48(addr & 0xffff_ffff_ffff),
        sext48(r.0) == r.0,
//@ proof
        lemma_sext48(addr);
//@ end

//@ fn src/addr.rs | impl VirtAddr | try_new
//@ obligation C03 C03.VirtAddr_try_new.ok_iff_canonical_unchanged
//@ A
    ensures
        r is Ok <==> canonical(addr),
        r is Ok ==> r->Ok_0.0 == addr && wf_v(r->Ok_0),
        r is Err ==> r->Err_0.0 == addr,
//@ proof
        lemma_sext48(addr);
//@ end

//@ fn src/addr.rs | impl VirtAddr | new
//@ obligation C03 C03.VirtAddr_new.returns_iff_canonical
//@ A
    requires canonical(addr),
    ensures r.0 == addr, wf_v(r),
//@ B
    ensures canonical(addr), r.0 == addr, wf_v(r),
//@ end

//@ fn src/addr.rs | impl VirtAddr | new_unsafe
//@ obligation C03 C03.VirtAddr_new_unsafe.helper_identity
//@ obligation C05 C05.VirtAddr_new_unsafe.helper_identity
//@ A
    requires canonical(addr),
    ensures r.0 == addr,
//@ end

//@ fn src/addr.rs | impl VirtAddr | zero
//@ obligation C03 C03.VirtAddr_zero.valid
//@ A
    ensures r.0 == 0, wf_v(r),
//@ proof
        assert(canonical(0u64)) by (bit_vector);
//@ end

//@ fn src/addr.rs | impl VirtAddr | as_u64
//@ obligation C03 C03.VirtAddr_as_u64.helper_identity
//@ obligation C06 C06.VirtAddr_as_u64.helper_identity
//@ obligation C07 C07.VirtAddr_as_u64.helper_identity
//@ A
    ensures r == self.0,
//@ end

//@ fn src/addr.rs | impl VirtAddr | from_ptr
//@ obligation C03 C03.VirtAddr_from_ptr.valid_or_panic
//@ sub /ptr as \*const \(\) as u64/ => ptr_to_u64(ptr)
//@ A
    requires canonical(ptr_addr_spec(ptr)),
    ensures r.0 == ptr_addr_spec(ptr), wf_v(r),
//@ B
    ensures canonical(ptr_addr_spec(ptr)), r.0 == ptr_addr_spec(ptr), wf_v(r),
//@ end

//@ fn src/addr.rs | impl VirtAddr | is_null
//@ obligation C03 C03.VirtAddr_is_null.helper
//@ A
    ensures r == (self.0 == 0),
//@ end

//@ fn src/addr.rs | impl VirtAddr | align_up
//@ obligation C06 C06.VirtAddr_align_up.least_canonical_multiple
//@ obligation C03 C03.VirtAddr_align_up.valid
//@ A
    requires
        <U as IntoSpec<u64>>::obeys_into_spec(),
        pow2_u64(into_u64(align)), align_up_int(self.0, into_u64(align)) <= u64::MAX,
    ensures
        wf_v(r),
        r.0 == sext48(align_up_int(self.0, into_u64(align)) as u64),
        // for canonical self and alignments up to 2^47 the result is the least canonical multiple not below self
        wf_v(self) && into_u64(align) <= 0x8000_0000_0000 ==>
            is_mult(r.0 as int, into_u64(align) as int)
            && (r.0 as int == align_up_int(self.0, into_u64(align))
                // rounding a lower-half address up to 2^47 lands on the first upper-half address
                || (align_up_int(self.0, into_u64(align)) == 0x8000_0000_0000 && r.0 == 0xffff_8000_0000_0000)),
//@ B
    requires <U as IntoSpec<u64>>::obeys_into_spec(),
    ensures
        pow2_u64(into_u64(align)), align_up_int(self.0, into_u64(align)) <= u64::MAX,
        wf_v(r),
        r.0 == sext48(align_up_int(self.0, into_u64(align)) as u64),
//@ proof
        lemma_virt_align_up(self.0, into_u64(align));
//@ end

//@ fn src/addr.rs | impl VirtAddr | align_down
//@ obligation C06 C06.VirtAddr_align_down.greatest_canonical_multiple
//@ obligation C03 C03.VirtAddr_align_down.valid
//@ A
    requires <U as IntoSpec<u64>>::obeys_into_spec(), pow2_u64(into_u64(align)),
    ensures
        wf_v(r),
        r.0 == sext48(align_down_spec(self.0, into_u64(align))),
        wf_v(self) && into_u64(align) <= 0x8000_0000_0000 ==> r.0 == align_down_spec(self.0, into_u64(align)),
//@ B
    requires <U as IntoSpec<u64>>::obeys_into_spec(),
    ensures
        pow2_u64(into_u64(align)),
        wf_v(r),
        r.0 == sext48(align_down_spec(self.0, into_u64(align))),
        wf_v(self) && into_u64(align) <= 0x8000_0000_0000 ==> r.0 == align_down_spec(self.0, into_u64(align)),
//@ end

//@ fn src/addr.rs | impl VirtAddr | align_down_u64
//@ obligation C06 C06.VirtAddr_align_down_u64.greatest_canonical_multiple
//@ obligation C03 C03.VirtAddr_align_down_u64.valid
//@ A
    requires pow2_u64(align),
    ensures
        wf_v(r),
        r.0 == sext48(align_down_spec(self.0, align)),
        // canonical input, alignment up to 2^47: exactly the greatest multiple, which is canonical and in the same half
        wf_v(self) && align <= 0x8000_0000_0000 ==>
            r.0 == align_down_spec(self.0, align) && r.0 <= self.0 && self.0 - r.0 < align
            && is_mult(r.0 as int, align as int)
            && (forall|m: u64| #[trigger] is_mult(m as int, align as int) && m <= self.0 ==> m <= r.0)
            && same_half(r.0, self.0),
//@ B
    ensures
        pow2_u64(align),
        wf_v(r),
        r.0 == sext48(align_down_spec(self.0, align)),
        wf_v(self) && align <= 0x8000_0000_0000 ==>
            r.0 == align_down_spec(self.0, align) && r.0 <= self.0 && self.0 - r.0 < align
            && is_mult(r.0 as int, align as int)
            && (forall|m: u64| #[trigger] is_mult(m as int, align as int) && m <= self.0 ==> m <= r.0)
            && same_half(r.0, self.0),
//@ proof
        if pow2_u64(align) { lemma_virt_align_down(self.0, align); }
//@ end

//@ fn src/addr.rs | impl VirtAddr | is_aligned
//@ obligation C06 C06.VirtAddr_is_aligned.iff_multiple
//@ A
    requires <U as IntoSpec<u64>>::obeys_into_spec(), pow2_u64(into_u64(align)), wf_v(self),
    ensures r == is_mult(self.0 as int, into_u64(align) as int),
//@ B
    requires <U as IntoSpec<u64>>::obeys_into_spec(), wf_v(self),
    ensures pow2_u64(into_u64(align)), r == is_mult(self.0 as int, into_u64(align) as int),
//@ end

//@ fn src/addr.rs | impl VirtAddr | is_aligned_u64
//@ obligation C06 C06.VirtAddr_is_aligned_u64.iff_multiple
//@ A
    // every power-of-two alignment (audit item 22): above 2^47 the only canonical multiple is 0
    requires pow2_u64(align), wf_v(self),
    ensures r == is_mult(self.0 as int, align as int),
//@ B
    requires wf_v(self),
    ensures pow2_u64(align), r == is_mult(self.0 as int, align as int),
//@ proof
        if pow2_u64(align) {
            lemma_align_down(self.0, align);
            if align <= 0x8000_0000_0000 { lemma_virt_align_down(self.0, align); } else { lemma_virt_is_aligned_big(self.0, align); }
        }
//@ end

//@ verbatim
pub proof fn lemma_virt_is_aligned_big(a: u64, align: u64)
    requires pow2_u64(align), canonical(a), align > 0x8000_0000_0000
    ensures (sext48(align_down_spec(a, align)) == a) <==> (align_down_spec(a, align) == a)
{
    lemma_pow2_is_shift(align);
    let k: u64 = choose|k: u64| k < 64 && align == (1u64 << k);
    assert(k < 64 && (1u64 << k) > 0x8000_0000_0000 ==> k >= 48) by (bit_vector);
    assert(48 <= k && k < 64 && canonical(a) ==>
        ((sext48(a & !sub(1u64 << k, 1)) == a) <==> ((a & !sub(1u64 << k, 1)) == a))) by (bit_vector);
}
//@ end

//@ verbatim
pub proof fn lemma_virt_align_down(a: u64, align: u64)
    requires pow2_u64(align)
    ensures
        canonical(a) && align <= 0x8000_0000_0000 ==> canonical(align_down_spec(a, align))
            && sext48(align_down_spec(a, align)) == align_down_spec(a, align)
            && same_half(align_down_spec(a, align), a),
{
    lemma_align_down(a, align);
    lemma_pow2_is_shift(align);
    let k: u64 = choose|k: u64| k < 64 && align == (1u64 << k);
    assert(k < 64 && (1u64 << k) <= 0x8000_0000_0000 ==> k <= 47) by (bit_vector);
    assert(k <= 47 && canonical(a) ==> canonical(a & !sub(1u64 << k, 1)) && ((a & !sub(1u64 << k, 1)) >> 47) == (a >> 47)) by (bit_vector);
    lemma_sext48(align_down_spec(a, align));
}

pub proof fn lemma_virt_align_up(a: u64, align: u64)
    ensures
        pow2_u64(align) && align_up_int(a, align) <= u64::MAX && canonical(a) && align <= 0x8000_0000_0000 ==> ({
            let up = align_up_int(a, align) as u64;
            is_mult(sext48(up) as int, align as int)
            && (sext48(up) == up || (up == 0x8000_0000_0000 && sext48(up) == 0xffff_8000_0000_0000))
        }),
{
    reveal(is_mult);
    if pow2_u64(align) && align_up_int(a, align) <= u64::MAX && canonical(a) && align <= 0x8000_0000_0000 {
        lemma_align_up(a, align);
        lemma_canonical_halves(a);
        let up = align_up_int(a, align) as u64;
        lemma_sext48(up);
        lemma_canonical_halves(up);
        lemma_pow2_is_shift(align);
        let k: u64 = choose|k: u64| k < 64 && align == (1u64 << k);
        assert(k < 64 && (1u64 << k) <= 0x8000_0000_0000 ==> k <= 47) by (bit_vector);
        if a < 0x8000_0000_0000 {
            // up <= 2^47 because 2^47 is itself a multiple of align
            assert(k <= 47 ==> 0x8000_0000_0000u64 % (1u64 << k) == 0) by (bit_vector);
            assert(is_mult(0x8000_0000_0000int, align as int));
            assert(up <= 0x8000_0000_0000);
            if up == 0x8000_0000_0000 {
                assert(sext48(0x8000_0000_0000u64) == 0xffff_8000_0000_0000u64) by (bit_vector);
                assert(k <= 47 ==> 0xffff_8000_0000_0000u64 % (1u64 << k) == 0) by (bit_vector);
            }
        } else {
            // upper half: up >= a stays in the upper half (no overflow by assumption)
            assert(up >= 0xffff_8000_0000_0000);
        }
    }
}
//@ end

// ---------------------------------------------------------------------------
// VirtAddr index accessors (C04)

//@ fn src/addr.rs | impl VirtAddr | page_offset
//@ obligation C04 C04.VirtAddr_page_offset.bits_0_11
//@ A
    ensures r.0 as u64 == self.0 & 0xfff, r.0 < 4096,
//@ proof
        let a = self.0;
        assert((a as u16) % 4096u16 == (a & 0xfff) as u16) by (bit_vector);
        assert((a & 0xfff) < 4096) by (bit_vector);
//@ end

//@ fn src/addr.rs | impl VirtAddr | p1_index
//@ obligation C04 C04.VirtAddr_p1_index.bits_12_20
//@ A
    ensures r.0 as u64 == (self.0 >> 12) & 0x1ff, r.0 < 512,
//@ proof
        let a = self.0;
        assert(((a >> 12) as u16) % 512u16 == ((a >> 12) & 0x1ff) as u16) by (bit_vector);
        assert(((a >> 12) & 0x1ff) < 512) by (bit_vector);
//@ end

//@ fn src/addr.rs | impl VirtAddr | p2_index
//@ obligation C04 C04.VirtAddr_p2_index.bits_21_29
//@ A
    ensures r.0 as u64 == (self.0 >> 21) & 0x1ff, r.0 < 512,
//@ proof
        let a = self.0;
        assert(((a >> 12 >> 9) as u16) % 512u16 == ((a >> 21) & 0x1ff) as u16) by (bit_vector);
        assert(((a >> 21) & 0x1ff) < 512) by (bit_vector);
//@ end

//@ fn src/addr.rs | impl VirtAddr | p3_index
//@ obligation C04 C04.VirtAddr_p3_index.bits_30_38
//@ A
    ensures r.0 as u64 == (self.0 >> 30) & 0x1ff, r.0 < 512,
//@ proof
        let a = self.0;
        assert(((a >> 12 >> 9 >> 9) as u16) % 512u16 == ((a >> 30) & 0x1ff) as u16) by (bit_vector);
        assert(((a >> 30) & 0x1ff) < 512) by (bit_vector);
//@ end

//@ fn src/addr.rs | impl VirtAddr | p4_index
//@ obligation C04 C04.VirtAddr_p4_index.bits_39_47
//@ A
    ensures r.0 as u64 == (self.0 >> 39) & 0x1ff, r.0 < 512,
//@ proof
        let a = self.0;
        assert(((a >> 12 >> 9 >> 9 >> 9) as u16) % 512u16 == ((a >> 39) & 0x1ff) as u16) by (bit_vector);
        assert(((a >> 39) & 0x1ff) < 512) by (bit_vector);
//@ end

//@ fn src/addr.rs | impl VirtAddr | page_table_index
//@ obligation C04 C04.VirtAddr_page_table_index.by_level
//@ A
    ensures
        r.0 < 512,
        r.0 as u64 == (self.0 >> level_shift(level)) & 0x1ff,
//@ proof
        let a = self.0;
        assert(((a >> 12 >> 0u8) as u16) % 512u16 == ((a >> 12) & 0x1ff) as u16) by (bit_vector);
        assert(((a >> 12 >> 9u8) as u16) % 512u16 == ((a >> 21) & 0x1ff) as u16) by (bit_vector);
        assert(((a >> 12 >> 18u8) as u16) % 512u16 == ((a >> 30) & 0x1ff) as u16) by (bit_vector);
        assert(((a >> 12 >> 27u8) as u16) % 512u16 == ((a >> 39) & 0x1ff) as u16) by (bit_vector);
        assert(((a >> 12) & 0x1ff) < 512) by (bit_vector);
        assert(((a >> 21) & 0x1ff) < 512) by (bit_vector);
        assert(((a >> 30) & 0x1ff) < 512) by (bit_vector);
        assert(((a >> 39) & 0x1ff) < 512) by (bit_vector);
//@ end

// ---------------------------------------------------------------------------
// stepping (C05)

//@ verbatim
pub proof fn lemma_bits47(v: u64)
    ensures
        get_bits_u64(v, 47, 64) == v >> 47,
        set_bits_u64(v, 47, 64, 0x1ffff) == v | 0xffff_8000_0000_0000,
        set_bits_u64(v, 47, 64, 0) == v & 0x7fff_ffff_ffff,
        u64::bf_fits(0x1ffff, 17), u64::bf_fits(0, 17),
{
    assert(mask_u64(47, 64) == 0xffff_8000_0000_0000u64) by (compute);
    assert((v & 0xffff_8000_0000_0000u64) >> 47u64 == v >> 47) by (bit_vector);
    assert((v & !0xffff_8000_0000_0000u64) | (0x1ffffu64 << 47u64) == v | 0xffff_8000_0000_0000) by (bit_vector);
    assert((v & !0xffff_8000_0000_0000u64) | (0u64 << 47u64) == v & 0x7fff_ffff_ffff) by (bit_vector);
    assert(0x1ffffu64 < (1u64 << 17u64)) by (bit_vector);
    assert(0u64 < (1u64 << 17u64)) by (bit_vector);
}

pub proof fn lemma_shift47_ranges(a: u64)
    ensures
        (a >> 47) == 0 <==> a < 0x8000_0000_0000,
        (a >> 47) == 1 <==> 0x8000_0000_0000 <= a < 0x1_0000_0000_0000,
        (a >> 47) == 2 <==> 0x1_0000_0000_0000 <= a < 0x1_8000_0000_0000,
        (a >> 47) == 0x1ffff <==> a >= 0xffff_8000_0000_0000,
        (a >> 47) == 0x1fffe <==> 0xffff_0000_0000_0000 <= a < 0xffff_8000_0000_0000,
        (a >> 47) == 0x1fffd <==> 0xfffe_8000_0000_0000 <= a < 0xffff_0000_0000_0000,
{
    assert((a >> 47) == 0 <==> a < 0x8000_0000_0000) by (bit_vector);
    assert((a >> 47) == 1 <==> 0x8000_0000_0000 <= a < 0x1_0000_0000_0000) by (bit_vector);
    assert((a >> 47) == 2 <==> 0x1_0000_0000_0000 <= a < 0x1_8000_0000_0000) by (bit_vector);
    assert((a >> 47) == 0x1ffff <==> a >= 0xffff_8000_0000_0000) by (bit_vector);
    assert((a >> 47) == 0x1fffe <==> 0xffff_0000_0000_0000 <= a < 0xffff_8000_0000_0000) by (bit_vector);
    assert((a >> 47) == 0x1fffd <==> 0xfffe_8000_0000_0000 <= a < 0xffff_0000_0000_0000) by (bit_vector);
}

pub proof fn lemma_gap_jump(a: u64)
    ensures
        0x8000_0000_0000 <= a < 0x1_0000_0000_0000 ==> canonical(a | 0xffff_8000_0000_0000) && pos(a | 0xffff_8000_0000_0000) == a,
        0xffff_0000_0000_0000 <= a < 0xffff_8000_0000_0000 ==> canonical(a & 0x7fff_ffff_ffff) && pos(a & 0x7fff_ffff_ffff) == a - 0xffff_0000_0000_0000,
{
    assert(0x8000_0000_0000 <= a < 0x1_0000_0000_0000 ==> canonical(a | 0xffff_8000_0000_0000) && ((a | 0xffff_8000_0000_0000) & 0xffff_ffff_ffff) == a) by (bit_vector);
    assert(0xffff_0000_0000_0000 <= a < 0xffff_8000_0000_0000 ==> canonical(a & 0x7fff_ffff_ffff) && ((a & 0x7fff_ffff_ffff) & 0xffff_ffff_ffff) == sub(a, 0xffff_0000_0000_0000)) by (bit_vector);
}

pub proof fn lemma_steps_mask(s: u64, e: u64)
    requires canonical(s), canonical(e), s <= e
    ensures ((e - s) as u64 & 0xffff_ffff_ffff) == pos(e) - pos(s)
{
    lemma_canonical_halves(s);
    lemma_canonical_halves(e);
    let d = (e - s) as u64;
    assert(d < 0x1_0000_0000_0000 ==> d & 0xffff_ffff_ffff == d) by (bit_vector);
    if s < 0x8000_0000_0000 && e >= 0xffff_8000_0000_0000 {
        assert(s < 0x8000_0000_0000 && e >= 0xffff_8000_0000_0000 ==> (sub(e, s) & 0xffff_ffff_ffff) == sub(sub(e, 0xffff_0000_0000_0000), s)) by (bit_vector);
    }
}
//@ end

//@ fn src/addr.rs | impl VirtAddr | steps_between_u64
//@ obligation C05 C05.VirtAddr_steps_between_u64.exact_distance_or_none
//@ A
    requires wf_v(*start), wf_v(*end),
    ensures
        r is Some <==> pos(start.0) <= pos(end.0),
        r is Some ==> r->Some_0 as int == pos(end.0) - pos(start.0),
//@ proof
        lemma_pos_order(start.0, end.0);
        if start.0 <= end.0 { lemma_steps_mask(start.0, end.0); }
//@ end

//@ fn src/addr.rs | impl VirtAddr | steps_between_impl
//@ obligation C05 C05.VirtAddr_steps_between_impl.exact_distance_or_none
//@ A
    requires wf_v(*start), wf_v(*end),
    ensures
        pos(start.0) <= pos(end.0) ==> r.1 == Some((pos(end.0) - pos(start.0)) as usize) && r.0 == (pos(end.0) - pos(start.0)) as usize,
        pos(start.0) > pos(end.0) ==> r.1 is None && r.0 == 0,
//@ proof
        lemma_canonical_halves(start.0); lemma_canonical_halves(end.0);
//@ end

//@ fn src/addr.rs | impl VirtAddr | forward_checked_u64
//@ obligation C05 C05.VirtAddr_forward_checked_u64.lands_n_later_or_none
//@ obligation C03 C03.VirtAddr_forward_checked_u64.valid
//@ A
    requires wf_v(start),
    ensures
        r is Some <==> pos(start.0) + count < 0x1_0000_0000_0000,
        r is Some ==> wf_v(r->Some_0) && pos(r->Some_0.0) == pos(start.0) + count,
//@ proof
        lemma_canonical_halves(start.0);
        if start.0 as int + count as int <= u64::MAX {
            let a = (start.0 + count) as u64;
            lemma_bits47(a); lemma_shift47_ranges(a); lemma_gap_jump(a); lemma_canonical_halves(a);
        }
//@ end

//@ fn src/addr.rs | impl VirtAddr | forward_checked_impl
//@ obligation C05 C05.VirtAddr_forward_checked_impl.lands_n_later_or_none
//@ A
    requires wf_v(start),
    ensures
        r is Some <==> pos(start.0) + count < 0x1_0000_0000_0000,
        r is Some ==> wf_v(r->Some_0) && pos(r->Some_0.0) == pos(start.0) + count,
//@ end

//@ fn src/addr.rs | impl VirtAddr | backward_checked_u64
//@ obligation C05 C05.VirtAddr_backward_checked_u64.lands_n_earlier_or_none
//@ obligation C03 C03.VirtAddr_backward_checked_u64.valid
//@ A
    requires wf_v(start),
    ensures
        r is Some <==> pos(start.0) - count >= 0,
        r is Some ==> wf_v(r->Some_0) && pos(r->Some_0.0) == pos(start.0) - count,
//@ proof
        lemma_canonical_halves(start.0);
        if start.0 >= count {
            let a = (start.0 - count) as u64;
            lemma_bits47(a); lemma_shift47_ranges(a); lemma_gap_jump(a); lemma_canonical_halves(a);
        }
//@ end

//@ fn src/addr.rs | impl Step for VirtAddr | steps_between
//@ as impl VirtAddr
//@ obligation C05 C05.VirtAddr_Step_steps_between.exact_distance_or_none
//@ A
    requires wf_v(*start), wf_v(*end),
    ensures
        pos(start.0) <= pos(end.0) ==> r.1 == Some((pos(end.0) - pos(start.0)) as usize) && r.0 == (pos(end.0) - pos(start.0)) as usize,
        pos(start.0) > pos(end.0) ==> r.1 is None && r.0 == 0,
//@ end

//@ fn src/addr.rs | impl Step for VirtAddr | forward_checked
//@ as impl VirtAddr
//@ obligation C05 C05.VirtAddr_Step_forward_checked.lands_n_later_or_none
//@ obligation C03 C03.VirtAddr_Step_forward_checked.valid
//@ A
    requires wf_v(start),
    ensures
        r is Some <==> pos(start.0) + count < 0x1_0000_0000_0000,
        r is Some ==> wf_v(r->Some_0) && pos(r->Some_0.0) == pos(start.0) + count,
//@ end

//@ fn src/addr.rs | impl Step for VirtAddr | backward_checked
//@ as impl VirtAddr
//@ obligation C05 C05.VirtAddr_Step_backward_checked.lands_n_earlier_or_none
//@ obligation C03 C03.VirtAddr_Step_backward_checked.valid
//@ A
    requires wf_v(start),
    ensures
        r is Some <==> pos(start.0) - count >= 0,
        r is Some ==> wf_v(r->Some_0) && pos(r->Some_0.0) == pos(start.0) - count,
//@ end

//@ verbatim
/// C05: forward, backward and steps-between are mutually inverse (two-line lemmas over the contracts above:
/// positions are unique names of canonical addresses, lemma_pos_injective).
pub proof fn lemma_step_inverse(s: u64, n: int, f: u64)
    requires canonical(s), canonical(f), 0 <= n, pos(f) == pos(s) + n
    ensures
        // backward from f by n lands on s; steps_between(s, f) == n
        forall|b: u64| canonical(b) && pos(b) == pos(f) - n ==> b == s,
        pos(f) - pos(s) == n,
{
    assert forall|b: u64| canonical(b) && pos(b) == pos(f) - n implies b == s by {
        lemma_pos_injective(b, s);
    }
}
//@ end

// ---------------------------------------------------------------------------
// operators (C07 exact-or-panic, C03 validity)

//@ verbatim A
impl AddSpecImpl<u64> for VirtAddr {
    open spec fn obeys_add_spec() -> bool { false }
    open spec fn add_req(self, rhs: u64) -> bool { self.0 + rhs <= u64::MAX && canonical((self.0 + rhs) as u64) }
    open spec fn add_spec(self, rhs: u64) -> VirtAddr { VirtAddr((self.0 + rhs) as u64) }
}
impl SubSpecImpl<u64> for VirtAddr {
    open spec fn obeys_sub_spec() -> bool { false }
    open spec fn sub_req(self, rhs: u64) -> bool { self.0 >= rhs && canonical((self.0 - rhs) as u64) }
    open spec fn sub_spec(self, rhs: u64) -> VirtAddr { VirtAddr((self.0 - rhs) as u64) }
}
impl SubSpecImpl<VirtAddr> for VirtAddr {
    open spec fn obeys_sub_spec() -> bool { false }
    open spec fn sub_req(self, rhs: VirtAddr) -> bool { self.0 >= rhs.0 }
    open spec fn sub_spec(self, rhs: VirtAddr) -> u64 { (self.0 - rhs.0) as u64 }
}
impl AddSpecImpl<u64> for PhysAddr {
    open spec fn obeys_add_spec() -> bool { false }
    open spec fn add_req(self, rhs: u64) -> bool { self.0 + rhs <= u64::MAX && phys_ok((self.0 + rhs) as u64) }
    open spec fn add_spec(self, rhs: u64) -> PhysAddr { PhysAddr((self.0 + rhs) as u64) }
}
impl SubSpecImpl<u64> for PhysAddr {
    open spec fn obeys_sub_spec() -> bool { false }
    open spec fn sub_req(self, rhs: u64) -> bool { self.0 >= rhs && phys_ok((self.0 - rhs) as u64) }
    open spec fn sub_spec(self, rhs: u64) -> PhysAddr { PhysAddr((self.0 - rhs) as u64) }
}
impl SubSpecImpl<PhysAddr> for PhysAddr {
    open spec fn obeys_sub_spec() -> bool { false }
    open spec fn sub_req(self, rhs: PhysAddr) -> bool { self.0 >= rhs.0 }
    open spec fn sub_spec(self, rhs: PhysAddr) -> u64 { (self.0 - rhs.0) as u64 }
}
//@ end

//@ verbatim B
impl AddSpecImpl<u64> for VirtAddr {
    open spec fn obeys_add_spec() -> bool { false }
    open spec fn add_req(self, rhs: u64) -> bool { true }
    open spec fn add_spec(self, rhs: u64) -> VirtAddr { VirtAddr((self.0 + rhs) as u64) }
}
impl SubSpecImpl<u64> for VirtAddr {
    open spec fn obeys_sub_spec() -> bool { false }
    open spec fn sub_req(self, rhs: u64) -> bool { true }
    open spec fn sub_spec(self, rhs: u64) -> VirtAddr { VirtAddr((self.0 - rhs) as u64) }
}
impl SubSpecImpl<VirtAddr> for VirtAddr {
    open spec fn obeys_sub_spec() -> bool { false }
    open spec fn sub_req(self, rhs: VirtAddr) -> bool { true }
    open spec fn sub_spec(self, rhs: VirtAddr) -> u64 { (self.0 - rhs.0) as u64 }
}
impl AddSpecImpl<u64> for PhysAddr {
    open spec fn obeys_add_spec() -> bool { false }
    open spec fn add_req(self, rhs: u64) -> bool { true }
    open spec fn add_spec(self, rhs: u64) -> PhysAddr { PhysAddr((self.0 + rhs) as u64) }
}
impl SubSpecImpl<u64> for PhysAddr {
    open spec fn obeys_sub_spec() -> bool { false }
    open spec fn sub_req(self, rhs: u64) -> bool { true }
    open spec fn sub_spec(self, rhs: u64) -> PhysAddr { PhysAddr((self.0 - rhs) as u64) }
}
impl SubSpecImpl<PhysAddr> for PhysAddr {
    open spec fn obeys_sub_spec() -> bool { false }
    open spec fn sub_req(self, rhs: PhysAddr) -> bool { true }
    open spec fn sub_spec(self, rhs: PhysAddr) -> u64 { (self.0 - rhs.0) as u64 }
}
//@ end

//@ fn src/addr.rs | impl Add<u64> for VirtAddr | add
//@ obligation C07 C07.VirtAddr_add_u64.exact_or_panic
//@ obligation C03 C03.VirtAddr_add_u64.valid
//@ A
    ensures r.0 == self.0 + rhs, wf_v(r),
//@ B
    ensures self.0 + rhs <= u64::MAX, canonical((self.0 + rhs) as u64), r.0 == self.0 + rhs, wf_v(r),
//@ end

//@ fn src/addr.rs | impl AddAssign<u64> for VirtAddr | add_assign
//@ obligation C07 C07.VirtAddr_add_assign_u64.exact_or_panic
//@ obligation C03 C03.VirtAddr_add_assign_u64.valid
//@ A
    ensures final(self).0 == old(self).0 + rhs, wf_v(*final(self)),
//@ B
    ensures old(self).0 + rhs <= u64::MAX, canonical((old(self).0 + rhs) as u64), final(self).0 == old(self).0 + rhs, wf_v(*final(self)),
//@ end

//@ fn src/addr.rs | impl Sub<u64> for VirtAddr | sub
//@ obligation C07 C07.VirtAddr_sub_u64.exact_or_panic
//@ obligation C03 C03.VirtAddr_sub_u64.valid
//@ A
    ensures r.0 == self.0 - rhs, wf_v(r),
//@ B
    ensures self.0 >= rhs, canonical((self.0 - rhs) as u64), r.0 == self.0 - rhs, wf_v(r),
//@ end

//@ fn src/addr.rs | impl SubAssign<u64> for VirtAddr | sub_assign
//@ obligation C07 C07.VirtAddr_sub_assign_u64.exact_or_panic
//@ obligation C03 C03.VirtAddr_sub_assign_u64.valid
//@ A
    ensures final(self).0 == old(self).0 - rhs, wf_v(*final(self)),
//@ B
    ensures old(self).0 >= rhs, canonical((old(self).0 - rhs) as u64), final(self).0 == old(self).0 - rhs, wf_v(*final(self)),
//@ end

//@ fn src/addr.rs | impl Sub<VirtAddr> for VirtAddr | sub
//@ obligation C07 C07.VirtAddr_sub_VirtAddr.exact_or_panic
//@ A
    ensures r == self.0 - rhs.0,
//@ B
    ensures self.0 >= rhs.0, r == self.0 - rhs.0,
//@ end

//@ verbatim A
impl AddAssignSpecImpl<u64> for VirtAddr {
    open spec fn obeys_add_assign_spec() -> bool { false }
    open spec fn add_assign_req(&self, rhs: u64) -> bool { self.0 + rhs <= u64::MAX && canonical((self.0 + rhs) as u64) }
    open spec fn add_assign_spec(&self, rhs: u64) -> &VirtAddr { &VirtAddr((self.0 + rhs) as u64) }
}
impl SubAssignSpecImpl<u64> for VirtAddr {
    open spec fn obeys_sub_assign_spec() -> bool { false }
    open spec fn sub_assign_req(&self, rhs: u64) -> bool { self.0 >= rhs && canonical((self.0 - rhs) as u64) }
    open spec fn sub_assign_spec(&self, rhs: u64) -> &VirtAddr { &VirtAddr((self.0 - rhs) as u64) }
}
impl AddAssignSpecImpl<u64> for PhysAddr {
    open spec fn obeys_add_assign_spec() -> bool { false }
    open spec fn add_assign_req(&self, rhs: u64) -> bool { self.0 + rhs <= u64::MAX && phys_ok((self.0 + rhs) as u64) }
    open spec fn add_assign_spec(&self, rhs: u64) -> &PhysAddr { &PhysAddr((self.0 + rhs) as u64) }
}
impl SubAssignSpecImpl<u64> for PhysAddr {
    open spec fn obeys_sub_assign_spec() -> bool { false }
    open spec fn sub_assign_req(&self, rhs: u64) -> bool { self.0 >= rhs && phys_ok((self.0 - rhs) as u64) }
    open spec fn sub_assign_spec(&self, rhs: u64) -> &PhysAddr { &PhysAddr((self.0 - rhs) as u64) }
}
//@ end

//@ verbatim B
impl AddAssignSpecImpl<u64> for VirtAddr {
    open spec fn obeys_add_assign_spec() -> bool { false }
    open spec fn add_assign_req(&self, rhs: u64) -> bool { true }
    open spec fn add_assign_spec(&self, rhs: u64) -> &VirtAddr { &VirtAddr((self.0 + rhs) as u64) }
}
impl SubAssignSpecImpl<u64> for VirtAddr {
    open spec fn obeys_sub_assign_spec() -> bool { false }
    open spec fn sub_assign_req(&self, rhs: u64) -> bool { true }
    open spec fn sub_assign_spec(&self, rhs: u64) -> &VirtAddr { &VirtAddr((self.0 - rhs) as u64) }
}
impl AddAssignSpecImpl<u64> for PhysAddr {
    open spec fn obeys_add_assign_spec() -> bool { false }
    open spec fn add_assign_req(&self, rhs: u64) -> bool { true }
    open spec fn add_assign_spec(&self, rhs: u64) -> &PhysAddr { &PhysAddr((self.0 + rhs) as u64) }
}
impl SubAssignSpecImpl<u64> for PhysAddr {
    open spec fn obeys_sub_assign_spec() -> bool { false }
    open spec fn sub_assign_req(&self, rhs: u64) -> bool { true }
    open spec fn sub_assign_spec(&self, rhs: u64) -> &PhysAddr { &PhysAddr((self.0 - rhs) as u64) }
}
//@ end

// ---------------------------------------------------------------------------
// PhysAddr

//@ fn src/addr.rs | impl PhysAddr | new_truncate
//@ obligation C03 C03.PhysAddr_new_truncate.mod_2_52_idempotent
//@ A
    ensures
        r.0 == addr % 0x10_0000_0000_0000, wf_p(r),
        phys_ok(addr) ==> r.0 == addr,
        r.0 == (addr & 0xf_ffff_ffff_ffff),
        r.0 % 0x10_0000_0000_0000 == r.0,
//@ proof
        assert((1u64 << 52) == 0x10_0000_0000_0000u64) by (bit_vector);
        assert(addr % 0x10_0000_0000_0000u64 == addr & 0xf_ffff_ffff_ffff) by (bit_vector);
//@ end

//@ fn src/addr.rs | impl PhysAddr | try_new
//@ obligation C03 C03.PhysAddr_try_new.ok_iff_52bit_unchanged
//@ A
    ensures
        r is Ok <==> phys_ok(addr),
        r is Ok ==> r->Ok_0.0 == addr && wf_p(r->Ok_0),
        r is Err ==> r->Err_0.0 == addr,
//@ end

//@ fn src/addr.rs | impl PhysAddr | new
//@ obligation C03 C03.PhysAddr_new.returns_iff_52bit
//@ A
    requires phys_ok(addr),
    ensures r.0 == addr, wf_p(r),
//@ B
    ensures phys_ok(addr), r.0 == addr, wf_p(r),
//@ end

//@ fn src/addr.rs | impl PhysAddr | new_unsafe
//@ obligation C03 C03.PhysAddr_new_unsafe.helper_identity
//@ A
    requires phys_ok(addr),
    ensures r.0 == addr,
//@ end

//@ fn src/addr.rs | impl PhysAddr | zero
//@ obligation C03 C03.PhysAddr_zero.valid
//@ A
    ensures r.0 == 0, wf_p(r),
//@ end

//@ fn src/addr.rs | impl PhysAddr | as_u64
//@ obligation C03 C03.PhysAddr_as_u64.helper_identity
//@ obligation C06 C06.PhysAddr_as_u64.helper_identity
//@ obligation C07 C07.PhysAddr_as_u64.helper_identity
//@ A
    ensures r == self.0,
//@ end

//@ fn src/addr.rs | impl PhysAddr | is_null
//@ obligation C03 C03.PhysAddr_is_null.helper
//@ A
    ensures r == (self.0 == 0),
//@ end

//@ fn src/addr.rs | impl PhysAddr | align_up
//@ obligation C06 C06.PhysAddr_align_up.least_multiple_or_panic_at_2_52
//@ obligation C03 C03.PhysAddr_align_up.valid
//@ A
    requires
        <U as IntoSpec<u64>>::obeys_into_spec(), wf_p(self),
        pow2_u64(into_u64(align)), align_up_int(self.0, into_u64(align)) < 0x10_0000_0000_0000,
    ensures
        wf_p(r), r.0 as int == align_up_int(self.0, into_u64(align)),
        r.0 >= self.0, r.0 - self.0 < into_u64(align), is_mult(r.0 as int, into_u64(align) as int),
        forall|m: int| #[trigger] is_mult(m, into_u64(align) as int) && m >= self.0 ==> m >= r.0,
//@ B
    requires <U as IntoSpec<u64>>::obeys_into_spec(), wf_p(self),
    ensures
        pow2_u64(into_u64(align)), align_up_int(self.0, into_u64(align)) < 0x10_0000_0000_0000,
        wf_p(r), r.0 as int == align_up_int(self.0, into_u64(align)),
//@ proof
        if pow2_u64(into_u64(align)) { lemma_align_up(self.0, into_u64(align)); }
//@ end

//@ fn src/addr.rs | impl PhysAddr | align_down
//@ obligation C06 C06.PhysAddr_align_down.greatest_multiple
//@ obligation C03 C03.PhysAddr_align_down.valid
//@ A
    requires <U as IntoSpec<u64>>::obeys_into_spec(), pow2_u64(into_u64(align)), wf_p(self),
    ensures wf_p(r), r.0 == align_down_spec(self.0, into_u64(align)),
//@ B
    requires <U as IntoSpec<u64>>::obeys_into_spec(), wf_p(self),
    ensures pow2_u64(into_u64(align)), wf_p(r), r.0 == align_down_spec(self.0, into_u64(align)),
//@ end

//@ fn src/addr.rs | impl PhysAddr | align_down_u64
//@ obligation C06 C06.PhysAddr_align_down_u64.greatest_multiple
//@ obligation C03 C03.PhysAddr_align_down_u64.valid
//@ A
    requires pow2_u64(align), wf_p(self),
    ensures
        wf_p(r), r.0 == align_down_spec(self.0, align),
        r.0 <= self.0, self.0 - r.0 < align, is_mult(r.0 as int, align as int),
        forall|m: u64| #[trigger] is_mult(m as int, align as int) && m <= self.0 ==> m <= r.0,
//@ B
    requires wf_p(self),
    ensures
        pow2_u64(align),
        wf_p(r), r.0 == align_down_spec(self.0, align),
        r.0 <= self.0, self.0 - r.0 < align, is_mult(r.0 as int, align as int),
        forall|m: u64| #[trigger] is_mult(m as int, align as int) && m <= self.0 ==> m <= r.0,
//@ end

//@ fn src/addr.rs | impl PhysAddr | is_aligned
//@ obligation C06 C06.PhysAddr_is_aligned.iff_multiple
//@ A
    requires <U as IntoSpec<u64>>::obeys_into_spec(), pow2_u64(into_u64(align)), wf_p(self),
    ensures r == is_mult(self.0 as int, into_u64(align) as int),
//@ B
    requires <U as IntoSpec<u64>>::obeys_into_spec(), wf_p(self),
    ensures pow2_u64(into_u64(align)), r == is_mult(self.0 as int, into_u64(align) as int),
//@ end

//@ fn src/addr.rs | impl PhysAddr | is_aligned_u64
//@ obligation C06 C06.PhysAddr_is_aligned_u64.iff_multiple
//@ A
    requires pow2_u64(align), wf_p(self),
    ensures r == is_mult(self.0 as int, align as int),
//@ B
    requires wf_p(self),
    ensures pow2_u64(align), r == is_mult(self.0 as int, align as int),
//@ proof
        if pow2_u64(align) { lemma_align_down(self.0, align); }
//@ end

//@ fn src/addr.rs | impl Add<u64> for PhysAddr | add
//@ obligation C07 C07.PhysAddr_add_u64.exact_or_panic
//@ obligation C03 C03.PhysAddr_add_u64.valid
//@ A
    ensures r.0 == self.0 + rhs, wf_p(r),
//@ B
    ensures self.0 + rhs <= u64::MAX, phys_ok((self.0 + rhs) as u64), r.0 == self.0 + rhs, wf_p(r),
//@ end

//@ fn src/addr.rs | impl AddAssign<u64> for PhysAddr | add_assign
//@ obligation C07 C07.PhysAddr_add_assign_u64.exact_or_panic
//@ obligation C03 C03.PhysAddr_add_assign_u64.valid
//@ A
    ensures final(self).0 == old(self).0 + rhs, wf_p(*final(self)),
//@ B
    ensures old(self).0 + rhs <= u64::MAX, phys_ok((old(self).0 + rhs) as u64), final(self).0 == old(self).0 + rhs, wf_p(*final(self)),
//@ end

//@ fn src/addr.rs | impl Sub<u64> for PhysAddr | sub
//@ obligation C07 C07.PhysAddr_sub_u64.exact_or_panic
//@ obligation C03 C03.PhysAddr_sub_u64.valid
//@ A
    ensures r.0 == self.0 - rhs, wf_p(r),
//@ B
    ensures self.0 >= rhs, phys_ok((self.0 - rhs) as u64), r.0 == self.0 - rhs, wf_p(r),
//@ end

//@ fn src/addr.rs | impl SubAssign<u64> for PhysAddr | sub_assign
//@ obligation C07 C07.PhysAddr_sub_assign_u64.exact_or_panic
//@ obligation C03 C03.PhysAddr_sub_assign_u64.valid
//@ A
    ensures final(self).0 == old(self).0 - rhs, wf_p(*final(self)),
//@ B
    ensures old(self).0 >= rhs, phys_ok((old(self).0 - rhs) as u64), final(self).0 == old(self).0 - rhs, wf_p(*final(self)),
//@ end

//@ fn src/addr.rs | impl Sub<PhysAddr> for PhysAddr | sub
//@ obligation C07 C07.PhysAddr_sub_PhysAddr.exact_or_panic
//@ A
    ensures r == self.0 - rhs.0,
//@ B
    ensures self.0 >= rhs.0, r == self.0 - rhs.0,
//@ end

// ---------------------------------------------------------------------------
// C05: forward, backward and steps-between are mutually inverse - over the REAL functions (callers checked against
// the callee contracts above, as in the brief's varint example)

//@ verbatim
pub fn c05_virt_roundtrip(s: VirtAddr, n: u64)
    requires wf_v(s)
{
    proof { lemma_canonical_halves(s.0); }
    let f = VirtAddr::forward_checked_u64(s, n);
    match f {
        Some(f) => {
            let d = VirtAddr::steps_between_u64(&s, &f);
            assert(d == Some(n));
            let b = VirtAddr::backward_checked_u64(f, n);
            proof { if b is Some { lemma_pos_injective(b->Some_0.0, s.0); } }
            assert(b == Some(s));
        }
        None => {}
    }
    let b = VirtAddr::backward_checked_u64(s, n);
    match b {
        Some(b) => {
            proof { lemma_canonical_halves(s.0); lemma_canonical_halves(b.0); }
            let f2 = VirtAddr::forward_checked_u64(b, n);
            proof { if f2 is Some { lemma_pos_injective(f2->Some_0.0, s.0); } }
            assert(f2 == Some(s));
            let d = VirtAddr::steps_between_u64(&b, &s);
            assert(d == Some(n));
        }
        None => {}
    }
}
//@ end
