//@ unit pte -- PageTableEntry of src/structures/paging/page_table.rs (C08 entries; C03 addr)

//@ bitflags src/structures/paging/page_table.rs PageTableFlags
//@ struct src/structures/paging/page_table.rs PageTableEntry
//@ enum src/structures/paging/page_table.rs FrameError

//@ verbatim
pub spec const PTE_ADDR_MASK: u64 = 0x000f_ffff_ffff_f000;
/// C08's flag domain: bits 0-11 and 52-63
pub spec const PTE_FLAG_DOMAIN: u64 = 0xfff0_0000_0000_0fff;

pub proof fn lemma_pte_masks(raw: u64, addr: u64, fl: u64)
    ensures
        pagetableflags_all_bits() == 0xfff0_0000_0000_1fffu64,
        phys_ok(raw & 0x000f_ffff_ffff_f000),
        is_mult((raw & 0x000f_ffff_ffff_f000) as int, 4096),
        // storing an aligned 52-bit address and domain flags keeps both apart
        phys_ok(addr) && addr & 0xfff == 0 && fl & 0xfff0_0000_0000_0fff == fl ==>
            (addr | fl) & 0x000f_ffff_ffff_f000 == addr && (addr | fl) & 0xfff0_0000_0000_0fff == fl,
        (raw & 0xfff0_0000_0000_1fff) & 1 == 1 <==> raw & 1 == 1,
        ((raw & 0xfff0_0000_0000_1fff) & 1 == 1) <==> (raw & 1 != 0),
        (raw & 0xfff0_0000_0000_1fff) & 0xfff0_0000_0000_0fff == raw & 0xfff0_0000_0000_0fff,
{
    reveal(is_mult);
    assert(pagetableflags_all_bits() == 0xfff0_0000_0000_1fffu64) by (compute);
    assert(raw & 0x000f_ffff_ffff_f000 < 0x10_0000_0000_0000) by (bit_vector);
    assert((raw & 0x000f_ffff_ffff_f000) % 4096 == 0) by (bit_vector);
    assert(addr < 0x10_0000_0000_0000 && addr & 0xfff == 0 && fl & 0xfff0_0000_0000_0fff == fl ==>
            (addr | fl) & 0x000f_ffff_ffff_f000 == addr && (addr | fl) & 0xfff0_0000_0000_0fff == fl) by (bit_vector);
    assert((raw & 0xfff0_0000_0000_1fff) & 1 == 1 <==> raw & 1 == 1) by (bit_vector);
    assert((raw & 1 == 1) <==> (raw & 1 != 0)) by (bit_vector);
    assert((raw & 0xfff0_0000_0000_1fff) & 0xfff0_0000_0000_0fff == raw & 0xfff0_0000_0000_0fff) by (bit_vector);
}
//@ end

//@ fn src/structures/paging/page_table.rs | impl PageTableEntry | new
//@ obligation C08 C08.PageTableEntry_new.all_zero
//@ A
    ensures r.entry == 0,
//@ end

//@ fn src/structures/paging/page_table.rs | impl PageTableEntry | is_unused
//@ obligation C08 C08.PageTableEntry_is_unused.iff_all_zero
//@ A
    ensures r == (self.entry == 0),
//@ end

//@ fn src/structures/paging/page_table.rs | impl PageTableEntry | set_unused
//@ obligation C08 C08.PageTableEntry_set_unused.zeroes
//@ A
    ensures final(self).entry == 0,
//@ end

//@ fn src/structures/paging/page_table.rs | impl PageTableEntry | flags
//@ obligation C08 C08.PageTableEntry_flags.returns_stored_flag_bits
//@ A
    ensures
        r.bits == self.entry & pagetableflags_all_bits(),
        r.bits & PTE_FLAG_DOMAIN == self.entry & PTE_FLAG_DOMAIN,
//@ proof
        lemma_pte_masks(self.entry, 0, 0);
//@ end

//@ fn src/structures/paging/page_table.rs | impl PageTableEntry | addr
//@ obligation C08 C08.PageTableEntry_addr.returns_stored_address
//@ obligation C03 C03.PageTableEntry_addr.valid
//@ A
    ensures r.0 == self.entry & PTE_ADDR_MASK, wf_p(r), is_mult(r.0 as int, 4096),
//@ proof
        lemma_pte_masks(self.entry, 0, 0);
//@ end

//@ fn src/structures/paging/page_table.rs | impl PageTableEntry | frame
//@ obligation C08 C08.PageTableEntry_frame.ok_iff_present
//@ A
    ensures
        r is Ok <==> self.entry & 1 == 1,
        r is Ok ==> r->Ok_0.start_address.0 == self.entry & PTE_ADDR_MASK && wf_frame(r->Ok_0),
        r is Err ==> r->Err_0 == FrameError::FrameNotPresent,
//@ proof
        lemma_pte_masks(self.entry, 0, 0);
        lemma_page_sizes();
        assert(pow2_u64(4096u64)) by (bit_vector);
        lemma_align_down(self.entry & PTE_ADDR_MASK, 4096);
//@ end

//@ fn src/structures/paging/page_table.rs | impl PageTableEntry | set_addr
//@ obligation C08 C08.PageTableEntry_set_addr.stores_exactly_both_or_panics
//@ A
    requires wf_p(addr), is_mult(addr.0 as int, 4096),
    ensures
        final(self).entry == addr.0 | flags.bits,
        flags.bits & PTE_FLAG_DOMAIN == flags.bits ==>
            final(self).entry & PTE_ADDR_MASK == addr.0 && final(self).entry & PTE_FLAG_DOMAIN == flags.bits,
//@ B
    requires wf_p(addr),
    ensures
        is_mult(addr.0 as int, 4096),
        final(self).entry == addr.0 | flags.bits,
        flags.bits & PTE_FLAG_DOMAIN == flags.bits ==>
            final(self).entry & PTE_ADDR_MASK == addr.0 && final(self).entry & PTE_FLAG_DOMAIN == flags.bits,
//@ proof
        lemma_page_sizes();
        axiom_u64_into_u64();
        lemma_mask_is_mult(addr.0);
        lemma_pte_masks(0, addr.0, flags.bits);
        assert(pow2_u64(4096u64)) by (bit_vector);
//@ end

//@ fn src/structures/paging/page_table.rs | impl PageTableEntry | set_frame
//@ obligation C08 C08.PageTableEntry_set_frame.stores_exactly_both
//@ A
    requires wf_frame(frame),
    ensures
        final(self).entry == frame.start_address.0 | flags.bits,
        flags.bits & PTE_FLAG_DOMAIN == flags.bits ==>
            final(self).entry & PTE_ADDR_MASK == frame.start_address.0 && final(self).entry & PTE_FLAG_DOMAIN == flags.bits,
//@ proof
        lemma_page_sizes();
//@ end

//@ fn src/structures/paging/page_table.rs | impl PageTableEntry | set_flags
//@ obligation C08 C08.PageTableEntry_set_flags.keeps_address_sets_flags
//@ A
    ensures
        final(self).entry == (old(self).entry & PTE_ADDR_MASK) | flags.bits,
        flags.bits & PTE_FLAG_DOMAIN == flags.bits ==>
            final(self).entry & PTE_ADDR_MASK == old(self).entry & PTE_ADDR_MASK && final(self).entry & PTE_FLAG_DOMAIN == flags.bits,
//@ proof
        lemma_pte_masks(old(self).entry, old(self).entry & PTE_ADDR_MASK, flags.bits);
        let raw = old(self).entry;
        assert((raw & 0x000f_ffff_ffff_f000) & 0xfff == 0) by (bit_vector);
//@ end
