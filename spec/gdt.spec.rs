//@ unit gdt -- GlobalDescriptorTable of src/structures/gdt.rs, SegmentSelector::new, PrivilegeLevel::from_u16 (C14)

//@ enum src/lib.rs PrivilegeLevel
//@ struct src/registers/segmentation.rs SegmentSelector
//@ bitflags src/structures/gdt.rs DescriptorFlags
//@ enum src/structures/gdt.rs Descriptor
//@ struct src/structures/gdt.rs GlobalDescriptorTable

//@ verbatim
// R1: with feature "instructions" Entry wraps an AtomicU64; the non-atomic arm of the cfg is verified
// (ASSUMED: AtomicU64::new / load(SeqCst) are the identity in one thread).
pub type EntryValue = u64;
//@ end
//@ struct src/structures/gdt.rs Entry
//@ implblock src/structures/gdt.rs | impl Clone for Entry

//@ verbatim
pub open spec fn pl_num(p: PrivilegeLevel) -> u16 {
    match p { PrivilegeLevel::Ring0 => 0u16, PrivilegeLevel::Ring1 => 1u16, PrivilegeLevel::Ring2 => 2u16, PrivilegeLevel::Ring3 => 3u16 }
}
/// privilege level encoded in a descriptor's low word (bits 45-46)
pub open spec fn desc_low(d: Descriptor) -> u64 {
    match d { Descriptor::UserSegment(v) => v, Descriptor::SystemSegment(v, _) => v }
}
pub open spec fn desc_dpl(d: Descriptor) -> u16 { ((desc_low(d) >> 45) & 3) as u16 }
/// the raw words a descriptor occupies, in order
pub open spec fn desc_words(d: Descriptor) -> Seq<u64> {
    match d { Descriptor::UserSegment(v) => seq![v], Descriptor::SystemSegment(lo, hi) => seq![lo, hi] }
}
/// abstract view: the used slots
pub open spec fn gdt_view<const MAX: usize>(g: GlobalDescriptorTable<MAX>) -> Seq<u64> {
    Seq::new(g.len as nat, |i: int| g.table[i].0)
}
/// representation invariant
pub open spec fn wf_gdt<const MAX: usize>(g: GlobalDescriptorTable<MAX>) -> bool {
    1 <= g.len <= MAX && MAX <= 8192 && g.table[0].0 == 0
}
//@ end

//@ fn src/lib.rs | impl PrivilegeLevel | from_u16
//@ obligation C14 C14.PrivilegeLevel_from_u16.returns_iff_lt_4
//@ A
    requires value < 4,
    ensures pl_num(r) == value,
//@ B
    ensures value < 4, pl_num(r) == value,
//@ end

//@ fn src/registers/segmentation.rs | impl SegmentSelector | new
//@ obligation C14 C14.SegmentSelector_new.index_rpl_ti0
//@ A
    requires index < 8192,
    ensures
        r.0 == (index << 3) | pl_num(rpl),
        r.0 >> 3 == index, r.0 & 3 == pl_num(rpl), r.0 & 4 == 0,
//@ proof
        let p = pl_num(rpl);
        assert(index < 8192 && p < 4 ==> ((index << 3) | p) >> 3 == index && ((index << 3) | p) & 3 == p && ((index << 3) | p) & 4 == 0) by (bit_vector);
//@ end

//@ fn src/structures/gdt.rs | impl Entry | new
//@ obligation C14 C14.GdtEntry_new.stores_raw
//@ keepconst
//@ sub /#\[cfg\(all\(feature = "instructions", target_arch = "x86_64"\)\)\]\s*let raw = EntryValue::new\(raw\);/ => 
//@ A
    ensures r.0 == raw,
//@ end

//@ fn src/structures/gdt.rs | impl Entry | raw
//@ obligation C14 C14.GdtEntry_raw.returns_stored
//@ sub /#\[cfg\(all\(feature = "instructions", target_arch = "x86_64"\)\)\]\s*let raw = self\.0\.load\(Ordering::SeqCst\);/ => 
//@ sub /#\[cfg\(not\(all\(feature = "instructions", target_arch = "x86_64"\)\)\)\]/ => 
//@ A
    ensures r == self.0,
//@ end

//@ fn src/structures/gdt.rs | impl Descriptor | dpl
//@ obligation C14 C14.Descriptor_dpl.bits_45_46
//@ A
    ensures pl_num(r) == desc_dpl(self),
//@ proof
        let v = desc_low(self);
        assert(DescriptorFlags::DPL_RING_3.bits == 3u64 << 45) by (compute);
        assert(((v & (3u64 << 45)) >> 45) == (v >> 45) & 3) by (bit_vector);
        assert(((v >> 45) & 3) < 4) by (bit_vector);
        assert((((v >> 45) & 3) as u16) == ((v & (3u64 << 45)) >> 45) as u16);
//@ end

//@ verbatim
/// R9: stands for the array-repeat expression `[NULL; MAX]` with `const NULL: Entry = Entry::new(0)`
/// (Verus has no array-fill for non-Copy element types). ASSUMED: every element equals Entry::new(0).
#[verifier::external_body]
pub fn gdt_null_table<const MAX: usize>() -> (r: [Entry; MAX])
    ensures forall|i: int| 0 <= i < MAX ==> (#[trigger] r[i]).0 == 0
{
    unimplemented!()
}
//@ end

//@ fn src/structures/gdt.rs | impl<const MAX: usize> GlobalDescriptorTable<MAX> | empty
//@ sub /\[NULL; MAX\]/ => gdt_null_table::<MAX>()
//@ sub /const NULL: Entry = Entry::new\(0\);/ => 
//@ obligation C14 C14.Gdt_empty.null_descriptor_only
//@ A
    requires 0 < MAX <= 8192,
    ensures wf_gdt(r), r.len == 1, gdt_view(r) == seq![0u64],
//@ B
    ensures 0 < MAX <= 8192, wf_gdt(r), r.len == 1, gdt_view(r) == seq![0u64],
//@ proof
        assert((1usize << 13) == 8192usize) by (bit_vector);
//@ end

//@ fn src/structures/gdt.rs | impl<const MAX: usize> GlobalDescriptorTable<MAX> | push
//@ obligation C14 C14.Gdt_push.writes_slot_len_only
//@ A
    requires old(self).len < MAX, MAX <= 8192, old(self).len >= 1,
    ensures
        r == old(self).len, final(self).len == old(self).len + 1,
        final(self).table[r as int].0 == value,
        forall|i: int| 0 <= i < MAX && i != r ==> final(self).table[i] == old(self).table[i],
//@ end

//@ fn src/structures/gdt.rs | impl<const MAX: usize> GlobalDescriptorTable<MAX> | append
//@ obligation C14 C14.Gdt_append.appends_in_order_selector_matches_or_panics_unchanged
//@ sub? /panic!\("GDT full"\)/ => { proof { assert(self.len == old(self).len && self.table == old(self).table); } panic!("GDT full") }
//@ sub? /panic!\("GDT requires two free spaces to hold a SystemSegment"\)/ => { proof { assert(self.len == old(self).len && self.table == old(self).table); } panic!("GDT requires two free spaces") }
//@ A
    requires wf_gdt(*old(self)), old(self).len + desc_words(entry).len() <= MAX,
    ensures
        wf_gdt(*final(self)),
        gdt_view(*final(self)) == gdt_view(*old(self)) + desc_words(entry),
        final(self).len == old(self).len + desc_words(entry).len(),
        r.0 == ((old(self).len as u16) << 3) | desc_dpl(entry),
        r.0 >> 3 == old(self).len, r.0 & 3 == desc_dpl(entry), r.0 & 4 == 0,
//@ B
    requires wf_gdt(*old(self)),
    ensures
        old(self).len + desc_words(entry).len() <= MAX,
        wf_gdt(*final(self)),
        gdt_view(*final(self)) == gdt_view(*old(self)) + desc_words(entry),
        final(self).len == old(self).len + desc_words(entry).len(),
        r.0 == ((old(self).len as u16) << 3) | desc_dpl(entry),
        r.0 >> 3 == old(self).len, r.0 & 3 == desc_dpl(entry), r.0 & 4 == 0,
//@ end

//@ fn src/structures/gdt.rs | impl<const MAX: usize> GlobalDescriptorTable<MAX> | limit
//@ obligation C14 C14.Gdt_limit.eight_times_len_minus_one
//@ sub /use core::mem::size_of;/ => 
//@ A
    requires wf_gdt(*self),
    ensures r == 8 * self.len - 1,
//@ end

//@ fn src/structures/gdt.rs | impl<const MAX: usize> GlobalDescriptorTable<MAX> | from_raw_entries
//@ obligation C14 C14.Gdt_from_raw_entries.reproduces_slice_or_panics
//@ A
    requires 0 < MAX <= 8192, 0 < slice.len() <= MAX, slice[0] == 0,
    ensures wf_gdt(r), gdt_view(r) == slice@,
//@ B
    ensures 0 < MAX <= 8192, 0 < slice.len() <= MAX, slice[0] == 0, wf_gdt(r), gdt_view(r) == slice@,
//@ loop 0
            invariant
                idx <= len, len == slice.len(), len <= MAX, 0 < len,
                forall|i: int| 0 <= i < idx ==> table[i].0 == slice[i],
            decreases len - idx,
//@ end

//@ fn src/structures/gdt.rs | impl<const MAX: usize> GlobalDescriptorTable<MAX> | entries
//@ obligation C14 C14.Gdt_entries.used_slots_in_order
//@ A
    requires wf_gdt(*self),
    ensures r@.len() == self.len, forall|i: int| 0 <= i < self.len ==> r@[i].0 == gdt_view(*self)[i],
//@ end
