//@ unit frame -- contracts for /repo/src/structures/paging/frame.rs

//@ struct src/structures/paging/frame.rs PhysFrame
//@ struct src/structures/paging/frame.rs PhysFrameRange
//@ struct src/structures/paging/frame.rs PhysFrameRangeInclusive

//@ verbatim
impl<S: PageSize> PartialEqSpecImpl for PhysFrame<S> {
    open spec fn obeys_eq_spec() -> bool { true }
    open spec fn eq_spec(&self, other: &PhysFrame<S>) -> bool { self.start_address.0 == other.start_address.0 }
}
impl<S: PageSize> PartialOrdSpecImpl for PhysFrame<S> {
    open spec fn obeys_partial_cmp_spec() -> bool { true }
    open spec fn partial_cmp_spec(&self, other: &PhysFrame<S>) -> Option<core::cmp::Ordering> {
        if self.start_address.0 < other.start_address.0 { Some(core::cmp::Ordering::Less) }
        else if self.start_address.0 == other.start_address.0 { Some(core::cmp::Ordering::Equal) }
        else { Some(core::cmp::Ordering::Greater) }
    }
}
pub open spec fn wf_frame<S: PageSize>(f: PhysFrame<S>) -> bool {
    wf_p(f.start_address) && is_mult(f.start_address.0 as int, S::SIZE as int)
}
pub open spec fn wf_frange<S: PageSize>(r: PhysFrameRange<S>) -> bool { wf_frame(r.start) && wf_frame(r.end) }
pub open spec fn wf_frange_incl<S: PageSize>(r: PhysFrameRangeInclusive<S>) -> bool { wf_frame(r.start) && wf_frame(r.end) }
pub open spec fn view_frange<S: PageSize>(r: PhysFrameRange<S>) -> Seq<int> {
    seq_excl(r.start.start_address.0 as int, r.end.start_address.0 as int, S::SIZE as int)
}
pub open spec fn view_frange_incl<S: PageSize>(r: PhysFrameRangeInclusive<S>) -> Seq<int> {
    seq_incl(r.start.start_address.0 as int, r.end.start_address.0 as int, S::SIZE as int)
}
//@ end

//@ fn src/structures/paging/frame.rs | impl<S: PageSize> PhysFrame<S> | from_start_address
//@ obligation C06 C06.PhysFrame_from_start_address.ok_iff_aligned
//@ obligation C03 C03.PhysFrame_from_start_address.valid
//@ A
    requires valid_size(S::SIZE), wf_p(address),
    ensures
        r is Ok <==> is_mult(address.0 as int, S::SIZE as int),
        r is Ok ==> r->Ok_0.start_address.0 == address.0 && wf_frame(r->Ok_0),
//@ proof
        lemma_valid_size(S::SIZE);
//@ end

//@ fn src/structures/paging/frame.rs | impl<S: PageSize> PhysFrame<S> | from_start_address_unchecked
//@ obligation C03 C03.PhysFrame_from_start_address_unchecked.helper_identity
//@ obligation C06 C06.PhysFrame_from_start_address_unchecked.helper_identity
//@ A
    requires wf_p(start_address), is_mult(start_address.0 as int, S::SIZE as int),
    ensures r.start_address == start_address, wf_frame(r),
//@ end

//@ fn src/structures/paging/frame.rs | impl<S: PageSize> PhysFrame<S> | containing_address
//@ obligation C06 C06.PhysFrame_containing_address.aligned_start_within_one_frame
//@ obligation C03 C03.PhysFrame_containing_address.valid
//@ A
    requires valid_size(S::SIZE), wf_p(address),
    ensures
        wf_frame(r),
        r.start_address.0 <= address.0, address.0 - r.start_address.0 < S::SIZE,
        r.start_address.0 == align_down_spec(address.0, S::SIZE),
        is_mult(address.0 as int, S::SIZE as int) ==> r.start_address.0 == address.0,
//@ proof
        lemma_valid_size(S::SIZE);
        lemma_align_down(address.0, S::SIZE);
//@ end

//@ fn src/structures/paging/frame.rs | impl<S: PageSize> PhysFrame<S> | start_address
//@ obligation C03 C03.PhysFrame_start_address.valid
//@ A
    ensures r == self.start_address,
//@ end

//@ fn src/structures/paging/frame.rs | impl<S: PageSize> PhysFrame<S> | size
//@ obligation C07 C07.PhysFrame_size.is_page_size
//@ A
    ensures r == S::SIZE,
//@ end

//@ fn src/structures/paging/frame.rs | impl<S: PageSize> PhysFrame<S> | range
//@ obligation C07 C07.PhysFrame_range.bounds_as_given
//@ A
    ensures r.start == start, r.end == end,
//@ end

//@ fn src/structures/paging/frame.rs | impl<S: PageSize> PhysFrame<S> | range_inclusive
//@ obligation C07 C07.PhysFrame_range_inclusive.bounds_as_given
//@ A
    ensures r.start == start, r.end == end,
//@ end

//@ verbatim A
impl<S: PageSize> AddSpecImpl<u64> for PhysFrame<S> {
    open spec fn obeys_add_spec() -> bool { false }
    open spec fn add_req(self, rhs: u64) -> bool {
        valid_size(S::SIZE) && wf_frame(self) && phys_ok_int(self.start_address.0 + rhs * S::SIZE)
    }
    open spec fn add_spec(self, rhs: u64) -> PhysFrame<S> { self }
}
impl<S: PageSize> SubSpecImpl<u64> for PhysFrame<S> {
    open spec fn obeys_sub_spec() -> bool { false }
    open spec fn sub_req(self, rhs: u64) -> bool { valid_size(S::SIZE) && wf_frame(self) && self.start_address.0 - rhs * S::SIZE >= 0 }
    open spec fn sub_spec(self, rhs: u64) -> PhysFrame<S> { self }
}
impl<S: PageSize> AddAssignSpecImpl<u64> for PhysFrame<S> {
    open spec fn obeys_add_assign_spec() -> bool { false }
    open spec fn add_assign_req(&self, rhs: u64) -> bool {
        valid_size(S::SIZE) && wf_frame(*self) && phys_ok_int(self.start_address.0 + rhs * S::SIZE)
    }
    open spec fn add_assign_spec(&self, rhs: u64) -> &PhysFrame<S> { self }
}
impl<S: PageSize> SubAssignSpecImpl<u64> for PhysFrame<S> {
    open spec fn obeys_sub_assign_spec() -> bool { false }
    open spec fn sub_assign_req(&self, rhs: u64) -> bool { valid_size(S::SIZE) && wf_frame(*self) && self.start_address.0 - rhs * S::SIZE >= 0 }
    open spec fn sub_assign_spec(&self, rhs: u64) -> &PhysFrame<S> { self }
}
impl<S: PageSize> SubSpecImpl<PhysFrame<S>> for PhysFrame<S> {
    open spec fn obeys_sub_spec() -> bool { false }
    open spec fn sub_req(self, rhs: PhysFrame<S>) -> bool { valid_size(S::SIZE) && wf_frame(self) && wf_frame(rhs) && self.start_address.0 >= rhs.start_address.0 }
    open spec fn sub_spec(self, rhs: PhysFrame<S>) -> u64 { 0 }
}
//@ end

//@ verbatim B
impl<S: PageSize> AddSpecImpl<u64> for PhysFrame<S> {
    open spec fn obeys_add_spec() -> bool { false }
    open spec fn add_req(self, rhs: u64) -> bool { valid_size(S::SIZE) && wf_frame(self) }
    open spec fn add_spec(self, rhs: u64) -> PhysFrame<S> { self }
}
impl<S: PageSize> SubSpecImpl<u64> for PhysFrame<S> {
    open spec fn obeys_sub_spec() -> bool { false }
    open spec fn sub_req(self, rhs: u64) -> bool { valid_size(S::SIZE) && wf_frame(self) }
    open spec fn sub_spec(self, rhs: u64) -> PhysFrame<S> { self }
}
impl<S: PageSize> AddAssignSpecImpl<u64> for PhysFrame<S> {
    open spec fn obeys_add_assign_spec() -> bool { false }
    open spec fn add_assign_req(&self, rhs: u64) -> bool { valid_size(S::SIZE) && wf_frame(*self) }
    open spec fn add_assign_spec(&self, rhs: u64) -> &PhysFrame<S> { self }
}
impl<S: PageSize> SubAssignSpecImpl<u64> for PhysFrame<S> {
    open spec fn obeys_sub_assign_spec() -> bool { false }
    open spec fn sub_assign_req(&self, rhs: u64) -> bool { valid_size(S::SIZE) && wf_frame(*self) }
    open spec fn sub_assign_spec(&self, rhs: u64) -> &PhysFrame<S> { self }
}
impl<S: PageSize> SubSpecImpl<PhysFrame<S>> for PhysFrame<S> {
    open spec fn obeys_sub_spec() -> bool { false }
    open spec fn sub_req(self, rhs: PhysFrame<S>) -> bool { valid_size(S::SIZE) && wf_frame(self) && wf_frame(rhs) }
    open spec fn sub_spec(self, rhs: PhysFrame<S>) -> u64 { 0 }
}
//@ end

//@ verbatim
pub open spec fn phys_ok_int(a: int) -> bool { 0 <= a < 0x10_0000_0000_0000 }
//@ end

//@ fn src/structures/paging/frame.rs | impl<S: PageSize> Add<u64> for PhysFrame<S> | add
//@ obligation C07 C07.PhysFrame_add_u64.exact_or_panic
//@ obligation C03 C03.PhysFrame_add_u64.valid
//@ A
    ensures r.start_address.0 == self.start_address.0 + rhs * S::SIZE, wf_frame(r),
//@ B
    ensures
        phys_ok_int(self.start_address.0 + rhs * S::SIZE),
        r.start_address.0 == self.start_address.0 + rhs * S::SIZE, wf_frame(r),
//@ proof
        lemma_valid_size(S::SIZE);
        lemma_mult_of(rhs as int, S::SIZE as int);
        lemma_mult_arith(self.start_address.0 as int, rhs * S::SIZE, S::SIZE as int);
//@ end

//@ fn src/structures/paging/frame.rs | impl<S: PageSize> AddAssign<u64> for PhysFrame<S> | add_assign
//@ obligation C07 C07.PhysFrame_add_assign_u64.exact_or_panic
//@ obligation C03 C03.PhysFrame_add_assign_u64.valid
//@ A
    ensures final(self).start_address.0 == old(self).start_address.0 + rhs * S::SIZE, wf_frame(*final(self)),
//@ B
    ensures
        phys_ok_int(old(self).start_address.0 + rhs * S::SIZE),
        final(self).start_address.0 == old(self).start_address.0 + rhs * S::SIZE, wf_frame(*final(self)),
//@ end

//@ fn src/structures/paging/frame.rs | impl<S: PageSize> Sub<u64> for PhysFrame<S> | sub
//@ obligation C07 C07.PhysFrame_sub_u64.exact_or_panic
//@ obligation C03 C03.PhysFrame_sub_u64.valid
//@ A
    ensures r.start_address.0 == self.start_address.0 - rhs * S::SIZE, wf_frame(r),
//@ B
    ensures
        self.start_address.0 - rhs * S::SIZE >= 0,
        r.start_address.0 == self.start_address.0 - rhs * S::SIZE, wf_frame(r),
//@ proof
        lemma_valid_size(S::SIZE);
        lemma_mult_of(rhs as int, S::SIZE as int);
        lemma_mult_arith(self.start_address.0 as int, rhs * S::SIZE, S::SIZE as int);
//@ end

//@ fn src/structures/paging/frame.rs | impl<S: PageSize> SubAssign<u64> for PhysFrame<S> | sub_assign
//@ obligation C07 C07.PhysFrame_sub_assign_u64.exact_or_panic
//@ obligation C03 C03.PhysFrame_sub_assign_u64.valid
//@ A
    ensures final(self).start_address.0 == old(self).start_address.0 - rhs * S::SIZE, wf_frame(*final(self)),
//@ B
    ensures
        old(self).start_address.0 - rhs * S::SIZE >= 0,
        final(self).start_address.0 == old(self).start_address.0 - rhs * S::SIZE, wf_frame(*final(self)),
//@ end

//@ fn src/structures/paging/frame.rs | impl<S: PageSize> Sub<PhysFrame<S>> for PhysFrame<S> | sub
//@ obligation C07 C07.PhysFrame_sub_PhysFrame.exact_frames_or_panic
//@ A
    ensures r * S::SIZE == self.start_address.0 - rhs.start_address.0, r as int == (self.start_address.0 - rhs.start_address.0) / (S::SIZE as int),
//@ B
    ensures self.start_address.0 >= rhs.start_address.0, r * S::SIZE == self.start_address.0 - rhs.start_address.0,
        r as int == (self.start_address.0 - rhs.start_address.0) / (S::SIZE as int),
//@ proof
        lemma_valid_size(S::SIZE);
        if self.start_address.0 >= rhs.start_address.0 {
            lemma_mult_arith(rhs.start_address.0 as int, self.start_address.0 as int, S::SIZE as int);
            lemma_mult_div(self.start_address.0 - rhs.start_address.0, S::SIZE as int);
        }
//@ end

// ---- ranges ---------------------------------------------------------------

//@ fn src/structures/paging/frame.rs | impl<S: PageSize> PhysFrameRange<S> | is_empty
//@ obligation C07 C07.PhysFrameRange_is_empty.iff_no_items
//@ A
    requires valid_size(S::SIZE), wf_frange(*self),
    ensures r == (self.start.start_address.0 >= self.end.start_address.0), r == (view_frange(*self).len() == 0),
//@ proof
        lemma_valid_size(S::SIZE);
        if self.start.start_address.0 < self.end.start_address.0 {
            lemma_seq_excl_step(self.start.start_address.0 as int, self.end.start_address.0 as int, S::SIZE as int);
        }
//@ end

//@ fn src/structures/paging/frame.rs | impl<S: PageSize> PhysFrameRange<S> | len
//@ obligation C07 C07.PhysFrameRange_len.equals_item_count
//@ A
    requires valid_size(S::SIZE), wf_frange(*self),
    ensures r == view_frange(*self).len(),
//@ proof
        lemma_valid_size(S::SIZE);
        if self.start.start_address.0 < self.end.start_address.0 {
            lemma_seq_excl_step(self.start.start_address.0 as int, self.end.start_address.0 as int, S::SIZE as int);
        }
//@ end

//@ fn src/structures/paging/frame.rs | impl<S: PageSize> PhysFrameRange<S> | size
//@ obligation C07 C07.PhysFrameRange_size.len_times_frame_size
//@ A
    requires valid_size(S::SIZE), wf_frange(*self),
    ensures r == view_frange(*self).len() * S::SIZE,
//@ proof
        lemma_valid_size(S::SIZE);
        if self.start.start_address.0 < self.end.start_address.0 {
            lemma_seq_excl_step(self.start.start_address.0 as int, self.end.start_address.0 as int, S::SIZE as int);
            lemma_mult_arith(self.start.start_address.0 as int, self.end.start_address.0 as int, S::SIZE as int);
            lemma_mult_div(self.end.start_address.0 - self.start.start_address.0, S::SIZE as int);
            lemma_mul_is_commutative(S::SIZE as int, (self.end.start_address.0 - self.start.start_address.0) / (S::SIZE as int));
        }
//@ end

//@ fn src/structures/paging/frame.rs | impl<S: PageSize> Iterator for PhysFrameRange<S> | next
//@ as impl<S: PageSize> PhysFrameRange<S>
//@ sub /Self::Item/ => PhysFrame<S>
//@ obligation C07 C07.PhysFrameRange_next.yields_first_and_shrinks_no_panic
//@ A
    requires valid_size(S::SIZE), wf_frange(*old(self)),
    ensures
        wf_frange(*final(self)),
        view_frange(*old(self)).len() == 0 ==> r is None && *final(self) == *old(self),
        view_frange(*old(self)).len() > 0 ==> r is Some
            && r->Some_0.start_address.0 as int == view_frange(*old(self))[0]
            && r->Some_0 == old(self).start
            && view_frange(*final(self)) == view_frange(*old(self)).subrange(1, view_frange(*old(self)).len() as int),
//@ proof
        lemma_valid_size(S::SIZE);
        if old(self).start.start_address.0 < old(self).end.start_address.0 {
            lemma_seq_excl_step(old(self).start.start_address.0 as int, old(self).end.start_address.0 as int, S::SIZE as int);
            lemma_count(old(self).start.start_address.0 as int, old(self).end.start_address.0 as int, S::SIZE as int);
            assert(1 * S::SIZE == S::SIZE as int);
        }
//@ end

//@ fn src/structures/paging/frame.rs | impl<S: PageSize> PhysFrameRangeInclusive<S> | is_empty
//@ obligation C07 C07.PhysFrameRangeInclusive_is_empty.iff_no_items
//@ A
    requires valid_size(S::SIZE), wf_frange_incl(*self),
    ensures r == (self.start.start_address.0 > self.end.start_address.0), r == (view_frange_incl(*self).len() == 0),
//@ proof
        lemma_valid_size(S::SIZE);
        if self.start.start_address.0 <= self.end.start_address.0 {
            lemma_seq_incl_step(self.start.start_address.0 as int, self.end.start_address.0 as int, S::SIZE as int);
        }
//@ end

//@ fn src/structures/paging/frame.rs | impl<S: PageSize> PhysFrameRangeInclusive<S> | len
//@ obligation C07 C07.PhysFrameRangeInclusive_len.equals_item_count
//@ A
    requires valid_size(S::SIZE), wf_frange_incl(*self),
    ensures r == view_frange_incl(*self).len(),
//@ proof
        lemma_valid_size(S::SIZE);
        if self.start.start_address.0 <= self.end.start_address.0 {
            lemma_seq_incl_step(self.start.start_address.0 as int, self.end.start_address.0 as int, S::SIZE as int);
            lemma_len_bound(self.start.start_address.0, self.end.start_address.0, S::SIZE);
        }
//@ end

//@ fn src/structures/paging/frame.rs | impl<S: PageSize> PhysFrameRangeInclusive<S> | size
//@ obligation C07 C07.PhysFrameRangeInclusive_size.len_times_frame_size
//@ A
    requires valid_size(S::SIZE), wf_frange_incl(*self),
    ensures r == view_frange_incl(*self).len() * S::SIZE,
//@ proof
        lemma_valid_size(S::SIZE);
        if self.start.start_address.0 <= self.end.start_address.0 {
            lemma_seq_incl_step(self.start.start_address.0 as int, self.end.start_address.0 as int, S::SIZE as int);
            lemma_mult_arith(self.start.start_address.0 as int, self.end.start_address.0 as int, S::SIZE as int);
            lemma_mult_div(self.end.start_address.0 - self.start.start_address.0, S::SIZE as int);
            let n = (self.end.start_address.0 - self.start.start_address.0) / (S::SIZE as int);
            lemma_mul_is_commutative(S::SIZE as int, n + 1);
            lemma_mul_is_distributive_add_other_way(S::SIZE as int, n, 1);
        }
//@ end

//@ verbatim
pub proof fn lemma_fincl_next(s0: u64, e0: u64, size: u64)
    requires valid_size(size), phys_ok(s0), phys_ok(e0), is_mult(s0 as int, size as int), is_mult(e0 as int, size as int), s0 <= e0
    ensures
        (1u64 << 52) == 0x10_0000_0000_0000u64, phys_ok((0x10_0000_0000_0000 - size) as u64), 1 * size == size as int,
        s0 < 0x10_0000_0000_0000 - size ==> phys_ok((s0 + size) as u64) && is_mult(s0 + size, size as int),
        !(s0 < 0x10_0000_0000_0000 - size) ==> s0 == e0 && e0 >= size && is_mult(e0 - size, size as int),
        seq_incl(s0 as int, e0 as int, size as int).len() >= 1,
        seq_incl(s0 as int, e0 as int, size as int)[0] == s0,
        seq_incl(s0 + size, e0 as int, size as int) == seq_incl(s0 as int, e0 as int, size as int).subrange(1, seq_incl(s0 as int, e0 as int, size as int).len() as int),
        s0 == e0 ==> seq_incl(s0 as int, e0 - size, size as int) == seq_incl(s0 as int, e0 as int, size as int).subrange(1, seq_incl(s0 as int, e0 as int, size as int).len() as int),
{
    lemma_valid_size(size);
    assert((1u64 << 52) == 0x10_0000_0000_0000u64) by (bit_vector);
    lemma_seq_incl_step(s0 as int, e0 as int, size as int);
    lemma_count(s0 as int, e0 as int, size as int);
    lemma_mult_arith(s0 as int, size as int, size as int);
    lemma_mult_arith(s0 as int, 0x10_0000_0000_0000int, size as int);
    lemma_mult_arith(e0 as int, 0x10_0000_0000_0000int, size as int);
    if s0 == e0 {
        let full = seq_incl(s0 as int, e0 as int, size as int);
        assert(full.len() == 1);
        assert(seq_incl(s0 as int, e0 - size, size as int) =~= full.subrange(1, 1));
    }
}
//@ end

//@ fn src/structures/paging/frame.rs | impl<S: PageSize> Iterator for PhysFrameRangeInclusive<S> | next
//@ as impl<S: PageSize> PhysFrameRangeInclusive<S>
//@ sub /Self::Item/ => PhysFrame<S>
//@ obligation C07 C07.PhysFrameRangeInclusive_next.yields_first_and_shrinks_no_panic
//@ A
    requires valid_size(S::SIZE), wf_frange_incl(*old(self)),
    ensures
        wf_frange_incl(*final(self)),
        view_frange_incl(*old(self)).len() == 0 ==> r is None && *final(self) == *old(self),
        view_frange_incl(*old(self)).len() > 0 ==> r is Some
            && r->Some_0.start_address.0 as int == view_frange_incl(*old(self))[0]
            && r->Some_0 == old(self).start
            && view_frange_incl(*final(self)) == view_frange_incl(*old(self)).subrange(1, view_frange_incl(*old(self)).len() as int),
//@ proof
        if old(self).start.start_address.0 <= old(self).end.start_address.0 {
            lemma_fincl_next(old(self).start.start_address.0, old(self).end.start_address.0, S::SIZE);
        }
//@ end
