//@ unit recursive -- RecursivePageTable::new of src/structures/paging/mapper/recursive_page_table.rs (C20 constructor)

//@ struct src/structures/paging/page_table.rs PageTable
//@ struct src/structures/paging/mapper/recursive_page_table.rs RecursivePageTable
//@ enum src/structures/paging/mapper/recursive_page_table.rs InvalidPageTable

//@ verbatim
/// ghost machine register: the raw contents of CR3 (constant during one call)
pub uninterp spec fn cr3_value() -> u64;

/// R8: stands for the cast `table as *const _ as u64` (Verus rejects reference-to-integer casts).
/// The address is an uninterpreted function of the reference (any u64 is possible); Verus identifies a reference
/// with the value it points to, so this is "some address per table value", which is all one call of `new` can observe.
pub uninterp spec fn table_addr(t: &PageTable) -> u64;
#[verifier::external_body]
pub fn addr_of_table(t: &PageTable) -> (r: u64)
    ensures r == table_addr(t)
{
    t as *const _ as u64
}

pub struct Cr3;
pub struct Cr3Flags { pub bits: u64 }
impl Cr3 {
    /// contract of registers::control::Cr3::read over the ghost register (the wrapper itself is verified by E1, C16)
    #[verifier::external_body]
    pub fn read() -> (r: (PhysFrame, Cr3Flags))
        ensures r.0.start_address.0 == cr3_value() & 0x000f_ffff_ffff_f000, wf_frame(r.0),
    {
        unimplemented!()
    }
}

impl PartialEqSpecImpl for FrameError {
    open spec fn obeys_eq_spec() -> bool { true }
    open spec fn eq_spec(&self, other: &FrameError) -> bool { *self == *other }
}

/// R10: stands for `!=` on `Result<PhysFrame, FrameError>` (vstd has no spec for Result's PartialEq).
/// ASSUMED: core's derived PartialEq on Result compares variants, then payloads.
#[verifier::external_body]
pub fn result_frame_ne(a: Result<PhysFrame, FrameError>, b: Result<PhysFrame, FrameError>) -> (r: bool)
    ensures r == !(match (a, b) {
        (Ok(x), Ok(y)) => x.start_address.0 == y.start_address.0,
        (Err(x), Err(y)) => x == y,
        _ => false,
    })
{
    a != b
}

pub proof fn lemma_page_indices(a: u64)
    ensures ({
        let p = a & !sub(4096u64, 1);
        (p >> 39) & 0x1ff == (a >> 39) & 0x1ff && (p >> 30) & 0x1ff == (a >> 30) & 0x1ff
        && (p >> 21) & 0x1ff == (a >> 21) & 0x1ff && (p >> 12) & 0x1ff == (a >> 12) & 0x1ff
        && ((a >> 39) & 0x1ff) < 512
    }),
{
    assert(({
        let p = a & !sub(4096u64, 1);
        (p >> 39) & 0x1ff == (a >> 39) & 0x1ff && (p >> 30) & 0x1ff == (a >> 30) & 0x1ff
        && (p >> 21) & 0x1ff == (a >> 21) & 0x1ff && (p >> 12) & 0x1ff == (a >> 12) & 0x1ff
        && ((a >> 39) & 0x1ff) < 512
    })) by (bit_vector);
}

pub open spec fn recursive_form(a: u64) -> bool {
    let i = (a >> 39) & 0x1ff;
    (a >> 30) & 0x1ff == i && (a >> 21) & 0x1ff == i && (a >> 12) & 0x1ff == i
}
//@ end

//@ verbatim
impl vstd::std_specs::core::IndexSpecImpl<PageTableIndex> for PageTable {
    open spec fn index_req(&self, index: &PageTableIndex) -> bool { wf_idx(*index) }
}
//@ end

//@ fn src/structures/paging/page_table.rs | impl Index<PageTableIndex> for PageTable | index
//@ obligation C08 C08.PageTable_index_by_table_index.same_slot
//@ A
    ensures *r == self.entries[index.0 as int],
//@ end

//@ fn src/structures/paging/mapper/recursive_page_table.rs | impl<'a> RecursivePageTable<'a> | new
//@ obligation C20 C20.RecursivePageTable_new.ok_iff_recursive_and_active
//@ sub /table as \*const _ as u64/ => addr_of_table(table)
//@ sub? /if Ok\(Cr3::read\(\)\.0\) != table\[recursive_index\]\.frame\(\)/ => if result_frame_ne(Ok(Cr3::read().0), table[recursive_index].frame())
//@ A
    requires canonical(table_addr(old(table))),
    ensures
        // 'not recursive' exactly when the four indices of the table's address differ
        !recursive_form(table_addr(old(table))) <==> (r is Err && r->Err_0 == InvalidPageTable::NotRecursive),
        // otherwise 'not active' exactly when that slot does not point (present) to the frame loaded in CR3
        recursive_form(table_addr(old(table))) ==> {
            let idx = ((table_addr(old(table)) >> 39) & 0x1ff) as int;
            let e = old(table).entries[idx].entry;
            let active = (e & 1 == 1) && (e & 0x000f_ffff_ffff_f000 == cr3_value() & 0x000f_ffff_ffff_f000);
            &&& (active <==> r is Ok)
            &&& (!active ==> r->Err_0 == InvalidPageTable::NotActive)
            &&& (r is Ok ==> r->Ok_0.recursive_index.0 as int == idx)
        },
//@ proof
        lemma_page_sizes();
        lemma_page_indices(table_addr(old(table)));
        lemma_pte_masks(old(table).entries[((table_addr(old(table)) >> 39) & 0x1ff) as int].entry, 0, 0);
//@ end
