//@ unit page_table_types -- PageTableIndex, PageOffset, PageTableLevel from src/structures/paging/page_table.rs

//@ const src/structures/paging/page_table.rs ENTRY_COUNT
//@ struct src/structures/paging/page_table.rs PageTableIndex
//@ struct src/structures/paging/page_table.rs PageOffset
//@ enum src/structures/paging/page_table.rs PageTableLevel

//@ verbatim
impl PartialEqSpecImpl for PageTableIndex {
    open spec fn obeys_eq_spec() -> bool { true }
    open spec fn eq_spec(&self, other: &PageTableIndex) -> bool { self.0 == other.0 }
}
impl vstd::std_specs::convert::FromSpecImpl<PageTableIndex> for u16 {
    open spec fn obeys_from_spec() -> bool { true }
    open spec fn from_spec(v: PageTableIndex) -> u16 { v.0 }
}
impl vstd::std_specs::convert::FromSpecImpl<PageTableIndex> for u64 {
    open spec fn obeys_from_spec() -> bool { true }
    open spec fn from_spec(v: PageTableIndex) -> u64 { v.0 as u64 }
}
impl vstd::std_specs::convert::FromSpecImpl<PageTableIndex> for usize {
    open spec fn obeys_from_spec() -> bool { true }
    open spec fn from_spec(v: PageTableIndex) -> usize { v.0 as usize }
}
impl vstd::std_specs::convert::FromSpecImpl<PageOffset> for u16 {
    open spec fn obeys_from_spec() -> bool { true }
    open spec fn from_spec(v: PageOffset) -> u16 { v.0 }
}
impl vstd::std_specs::convert::FromSpecImpl<PageOffset> for u64 {
    open spec fn obeys_from_spec() -> bool { true }
    open spec fn from_spec(v: PageOffset) -> u64 { v.0 as u64 }
}
pub open spec fn wf_idx(i: PageTableIndex) -> bool { i.0 < 512 }
pub open spec fn wf_off(o: PageOffset) -> bool { o.0 < 4096 }

pub open spec fn level_num(l: PageTableLevel) -> int {
    match l { PageTableLevel::One => 1, PageTableLevel::Two => 2, PageTableLevel::Three => 3, PageTableLevel::Four => 4 }
}
/// bit position of the index field for a level in the 9-9-9-9-12 layout
pub open spec fn level_shift(l: PageTableLevel) -> u64 {
    match l { PageTableLevel::One => 12, PageTableLevel::Two => 21, PageTableLevel::Three => 30, PageTableLevel::Four => 39 }
}
//@ end

//@ fn src/structures/paging/page_table.rs | impl PageTableIndex | new
//@ obligation C04 C04.PageTableIndex_new.returns_iff_lt_512
//@ A
    requires index < 512,
    ensures r.0 == index, wf_idx(r),
//@ B
    ensures index < 512, r.0 == index, wf_idx(r),
//@ end

//@ fn src/structures/paging/page_table.rs | impl PageTableIndex | new_truncate
//@ obligation C04 C04.PageTableIndex_new_truncate.mod_512
//@ A
    ensures r.0 == index % 512, wf_idx(r),
//@ end

//@ fn src/structures/paging/page_table.rs | impl PageTableIndex | into_u64
//@ obligation C04 C04.PageTableIndex_into_u64.value
//@ A
    ensures r == self.0 as u64,
//@ end

//@ fn src/structures/paging/page_table.rs | impl From<PageTableIndex> for u16 | from
//@ obligation C04 C04.PageTableIndex_to_u16.value
//@ A
    ensures r == index.0,
//@ end

//@ fn src/structures/paging/page_table.rs | impl From<PageTableIndex> for u64 | from
//@ obligation C04 C04.PageTableIndex_to_u64.value
//@ A
    ensures r == index.0 as u64,
//@ end

//@ fn src/structures/paging/page_table.rs | impl From<PageTableIndex> for usize | from
//@ obligation C04 C04.PageTableIndex_to_usize.value
//@ A
    ensures r == index.0 as usize,
//@ end

//@ fn src/structures/paging/page_table.rs | impl PageOffset | new
//@ obligation C04 C04.PageOffset_new.returns_iff_lt_4096
//@ A
    requires offset < 4096,
    ensures r.0 == offset, wf_off(r),
//@ B
    ensures offset < 4096, r.0 == offset, wf_off(r),
//@ proof
        assert((1u16 << 12) == 4096u16) by (bit_vector);
//@ end

//@ fn src/structures/paging/page_table.rs | impl PageOffset | new_truncate
//@ obligation C04 C04.PageOffset_new_truncate.mod_4096
//@ A
    ensures r.0 == offset % 4096, wf_off(r),
//@ proof
        assert((1u16 << 12) == 4096u16) by (bit_vector);
//@ end

//@ fn src/structures/paging/page_table.rs | impl From<PageOffset> for u16 | from
//@ obligation C04 C04.PageOffset_to_u16.value
//@ A
    ensures r == offset.0,
//@ end

//@ fn src/structures/paging/page_table.rs | impl From<PageOffset> for u64 | from
//@ obligation C04 C04.PageOffset_to_u64.value
//@ A
    ensures r == offset.0 as u64,
//@ end

//@ fn src/structures/paging/page_table.rs | impl PageTableLevel | next_lower_level
//@ obligation C04 C04.PageTableLevel_next_lower_level.table
//@ A
    ensures
        level_num(self) == 1 <==> r is None,
        r is Some ==> level_num(r->Some_0) == level_num(self) - 1,
//@ end

//@ fn src/structures/paging/page_table.rs | impl PageTableLevel | next_higher_level
//@ obligation C04 C04.PageTableLevel_next_higher_level.table
//@ A
    ensures
        level_num(self) == 4 <==> r is None,
        r is Some ==> level_num(r->Some_0) == level_num(self) + 1,
//@ end

//@ fn src/structures/paging/page_table.rs | impl PageTableLevel | table_address_space_alignment
//@ obligation C04 C04.PageTableLevel_table_alignment.layout_9_9_9_9_12
//@ A
    ensures
        r == (match self { PageTableLevel::One => 0x20_0000u64, PageTableLevel::Two => 0x4000_0000u64,
                           PageTableLevel::Three => 0x80_0000_0000u64, PageTableLevel::Four => 0x1_0000_0000_0000u64 }),
        pow2_u64(r),
//@ proof
        assert(1u64 << 21u8 == 0x20_0000u64 && 1u64 << 30u8 == 0x4000_0000u64 && 1u64 << 39u8 == 0x80_0000_0000u64 && 1u64 << 48u8 == 0x1_0000_0000_0000u64) by (bit_vector);
        assert(pow2_u64(0x20_0000u64) && pow2_u64(0x4000_0000u64) && pow2_u64(0x80_0000_0000u64) && pow2_u64(0x1_0000_0000_0000u64)) by (bit_vector);
//@ end

//@ fn src/structures/paging/page_table.rs | impl PageTableLevel | entry_address_space_alignment
//@ obligation C04 C04.PageTableLevel_entry_alignment.layout_9_9_9_9_12
//@ A
    ensures
        r == (match self { PageTableLevel::One => 0x1000u64, PageTableLevel::Two => 0x20_0000u64,
                           PageTableLevel::Three => 0x4000_0000u64, PageTableLevel::Four => 0x80_0000_0000u64 }),
        r == 1u64 << level_shift(self),
        pow2_u64(r),
//@ proof
        assert(1u64 << 12u8 == 0x1000u64 && 1u64 << 21u8 == 0x20_0000u64 && 1u64 << 30u8 == 0x4000_0000u64 && 1u64 << 39u8 == 0x80_0000_0000u64) by (bit_vector);
        assert(1u64 << 12u64 == 0x1000u64 && 1u64 << 21u64 == 0x20_0000u64 && 1u64 << 30u64 == 0x4000_0000u64 && 1u64 << 39u64 == 0x80_0000_0000u64) by (bit_vector);
        assert(pow2_u64(0x1000u64) && pow2_u64(0x20_0000u64) && pow2_u64(0x4000_0000u64) && pow2_u64(0x80_0000_0000u64)) by (bit_vector);
//@ end

// ---- impl Step for PageTableIndex (C05) --------------------------------------

//@ verbatim
/// ASSUMED contract of core's `<u16 as Step>::steps_between` (unstable trait, cannot be named on Verus's toolchain);
/// the call `Step::steps_between(&start.0, &end.0)` is rewritten to this helper (stated rewrite).
#[verifier::external_body]
pub fn u16_steps_between(start: &u16, end: &u16) -> (r: (usize, Option<usize>))
    ensures
        *start <= *end ==> r.0 == (*end - *start) as usize && r.1 == Some((*end - *start) as usize),
        *start > *end ==> r.0 == 0 && r.1 is None,
{
    unimplemented!()
}

//@ end

//@ fn src/structures/paging/page_table.rs | impl Step for PageTableIndex | steps_between
//@ as impl PageTableIndex
//@ sub /Step::steps_between\(/ => u16_steps_between(
//@ obligation C05 C05.PageTableIndex_Step_steps_between.exact_or_none
//@ A
    requires wf_idx(*start), wf_idx(*end),
    ensures
        start.0 <= end.0 ==> r.0 == (end.0 - start.0) as usize && r.1 == Some((end.0 - start.0) as usize),
        start.0 > end.0 ==> r.0 == 0 && r.1 is None,
//@ end

//@ fn src/structures/paging/page_table.rs | impl Step for PageTableIndex | forward_checked
//@ as impl PageTableIndex
//@ obligation C05 C05.PageTableIndex_Step_forward_checked.within_0_512
//@ sub /\|\|\s*Self::new\((\w+)(\s+as\s+u16)?\)/ => || -> (q: Self) requires \1 < 512 ensures q.0 == \1 as u16 { Self::new(\1\2) }
//@ A
    requires wf_idx(start),
    ensures
        r is Some <==> start.0 + count < 512,
        r is Some ==> r->Some_0.0 == start.0 + count && wf_idx(r->Some_0),
//@ end

//@ fn src/structures/paging/page_table.rs | impl Step for PageTableIndex | backward_checked
//@ as impl PageTableIndex
//@ obligation C05 C05.PageTableIndex_Step_backward_checked.within_0_512
//@ A
    requires wf_idx(start),
    ensures
        r is Some <==> start.0 >= count,
        r is Some ==> r->Some_0.0 == start.0 - count && wf_idx(r->Some_0),
//@ end
