#!/usr/bin/env python3
"""Weave functions cut out of /repo with sidecar contracts into Verus files.

Spec file grammar (line directives start with `//@`):

  //@ verbatim [A|B]            raw Verus text up to `//@ end` (A/B: only in that mode's file)
  //@ struct <file> <Name>      extract a struct; fields become pub; derive/repr attributes kept
  //@ enum   <file> <Name>      extract an enum verbatim (derive/repr attributes kept)
  //@ const  <file> <NAME>      extract a top-level const verbatim
  //@ implconsts <file> | <impl header>     associated consts of an inherent impl block
  //@ bitflags <file> <Struct>  constants of a bitflags! block, emitted for the prelude's flag model
  //@ fn <file> | <impl header> | <name>    extract a function; block ends at `//@ end`
       //@ obligation <PROP> <obligation name>     (repeatable)
       //@ as <impl header>       emit under another impl header (Iterator/Step -> inherent)
       //@ rename <new fn name>   emit under another fn name (stated in evidence)
       //@ ret <ident>            name of the return value (default r)
       //@ sub /<regex>/ => <replacement>     extra textual rewrite of the item (logged)
       //@ only A | only B
       //@ A        contract clauses for mode A (total: panics unreachable under requires)
       //@ B        contract clauses for mode B (exact-or-panic; defaults to A's)
       //@ proof | proofA | proofB            ghost block inserted after the opening brace
       //@ loop <n>                           invariant/decreases clauses for the n-th loop
"""
import json
import os
import re
import sys

sys.path.insert(0, os.path.dirname(os.path.abspath(__file__)))
from extract import Source, ExtractError, code_mask, match_close, norm  # noqa: E402


class SpecError(Exception):
    pass


# ---------------------------------------------------------------------------
# spec file parsing

def parse_spec(path):
    items = []
    cur = None
    sec = None
    with open(path, encoding='utf-8') as f:
        lines = f.read().split('\n')
    for ln, line in enumerate(lines, 1):
        s = line.strip()
        if s.startswith('//@'):
            d = s[3:].strip()
            word = d.split(None, 1)[0] if d else ''
            rest = d[len(word):].strip()
            if cur is None:
                if word == 'verbatim':
                    cur = dict(kind='verbatim', mode=rest or 'AB', text=[], spec=path, line=ln)
                    sec = 'text'
                elif word in ('struct', 'enum', 'const'):
                    f_, n_ = rest.split()
                    items.append(dict(kind=word, file=f_, name=n_, spec=path, line=ln))
                elif word in ('trait', 'implblock'):
                    parts = [x.strip() for x in rest.split('|')]
                    drop = None
                    if parts[-1].startswith('drop='):
                        drop = parts.pop()[5:]
                    if word == 'trait':
                        f_, n_ = parts[0].split()
                        items.append(dict(kind='trait', file=f_, name=n_, drop=drop, spec=path, line=ln))
                    else:
                        items.append(dict(kind='implblock', file=parts[0], header=parts[1], drop=drop, spec=path, line=ln))
                elif word == 'implconsts':
                    f_, h_ = [x.strip() for x in rest.split('|')]
                    items.append(dict(kind='implconsts', file=f_, header=h_, spec=path, line=ln))
                elif word == 'bitflags':
                    f_, n_ = rest.split()
                    items.append(dict(kind='bitflags', file=f_, name=n_, spec=path, line=ln))
                elif word == 'fn':
                    parts = [x.strip() for x in rest.split('|')]
                    if len(parts) != 3:
                        raise SpecError('%s:%d: fn needs file | header | name' % (path, ln))
                    cur = dict(kind='fn', file=parts[0], header=parts[1], name=parts[2],
                               obligations=[], ret='r', subs=[], only=None, A=[], B=None,
                               proof=[], proofA=[], proofB=[], loops={}, spec=path, line=ln,
                               as_header=None, rename=None, seclines={})
                    sec = None
                elif word == 'unit' or word == '':
                    pass
                else:
                    raise SpecError('%s:%d: unknown directive %s' % (path, ln, word))
            else:
                if word == 'end':
                    items.append(cur)
                    cur = None
                    sec = None
                elif cur['kind'] == 'verbatim':
                    raise SpecError('%s:%d: directive inside verbatim' % (path, ln))
                elif word == 'obligation':
                    p, n = rest.split(None, 1)
                    cur['obligations'].append((p, n.strip()))
                elif word == 'as':
                    cur['as_header'] = rest
                elif word == 'rename':
                    cur['rename'] = rest
                elif word == 'ret':
                    cur['ret'] = rest
                elif word in ('sub', 'sub?'):
                    mm = re.match(r'/(.*)/\s*=>\s*(.*)$', rest)
                    if not mm:
                        raise SpecError('%s:%d: bad sub' % (path, ln))
                    cur['subs'].append((mm.group(1), mm.group(2), word == 'sub?'))
                elif word == 'only':
                    cur['only'] = rest
                elif word == 'keepconst':
                    cur['keepconst'] = True
                elif word == 'bodyless':
                    cur['bodyless'] = True
                elif word == 'bodylessA':
                    cur['bodylessA'] = True
                elif word in ('A', 'B', 'proof', 'proofA', 'proofB'):
                    sec = word
                    if word == 'B':
                        cur['B'] = []
                    cur['seclines'][word] = ln + 1
                elif word == 'loop':
                    sec = ('loop', int(rest))
                    cur['loops'][int(rest)] = []
                else:
                    raise SpecError('%s:%d: unknown fn directive %s' % (path, ln, word))
        else:
            if cur is None:
                continue
            if cur['kind'] == 'verbatim':
                cur['text'].append(line)
            elif sec is None:
                if s:
                    raise SpecError('%s:%d: text outside a section' % (path, ln))
            elif isinstance(sec, tuple):
                cur['loops'][sec[1]].append(line)
            else:
                cur[sec].append(line)
    if cur is not None:
        raise SpecError('%s: unterminated block starting line %d' % (path, cur['line']))
    return items


# ---------------------------------------------------------------------------
# textual rewrites

def _find_macro_calls(text, mask, names):
    """Yield (start, open_paren, close_paren, name) for name!( ... ) at code level."""
    pat = re.compile(r'\b(%s)!\s*\(' % '|'.join(names))
    pos = 0
    while True:
        mm = pat.search(text, pos)
        if not mm:
            return
        if not mask[mm.start()]:
            pos = mm.end()
            continue
        op = mm.end() - 1
        cl = match_close(text, mask, op)
        yield (mm.start(), op, cl, mm.group(1))
        pos = mm.end()


def _first_arg(text, mask, lo, hi):
    """End offset of the first top-level comma-separated argument in text[lo:hi]."""
    d = 0
    i = lo
    while i < hi:
        if mask[i]:
            ch = text[i]
            if ch in '([{':
                d += 1
            elif ch in ')]}':
                d -= 1
            elif ch == ',' and d == 0:
                return i
        i += 1
    return hi


def mode_b_rewrite(text):
    """R6: panics become diverging helpers that carry no precondition."""
    log = []
    # macros first (innermost-last order does not matter: we re-lex after each edit)
    changed = True
    while changed:
        changed = False
        mask = code_mask(text)
        for (st, op, cl, name) in _find_macro_calls(text, mask, ['panic', 'unreachable', 'assert', 'assert_eq', 'debug_assert', 'unimplemented', 'todo']):
            if name in ('panic', 'unreachable', 'unimplemented', 'todo'):
                text = text[:st] + 'vpanic()' + text[cl + 1:]
                log.append('%s! -> vpanic()' % name)
            elif name in ('assert', 'debug_assert'):
                fe = _first_arg(text, mask, op + 1, cl)
                cond = text[op + 1:fe]
                text = text[:st] + 'vassert(' + cond + ')' + text[cl + 1:]
                log.append('%s! -> vassert(..)' % name)
            elif name == 'assert_eq':
                fe = _first_arg(text, mask, op + 1, cl)
                se = _first_arg(text, mask, fe + 1, cl)
                text = text[:st] + 'vassert((' + text[op + 1:fe] + ') == (' + text[fe + 1:se] + '))' + text[cl + 1:]
                log.append('assert_eq! -> vassert(..)')
            changed = True
            break
    # .unwrap() / .expect(..)
    changed = True
    while changed:
        changed = False
        mask = code_mask(text)
        for mm in re.finditer(r'\.\s*(unwrap|expect)\s*\(', text):
            if not mask[mm.start()]:
                continue
            op = mm.end() - 1
            cl = match_close(text, mask, op)
            text = text[:mm.start()] + '.vunwrap()' + text[cl + 1:]
            log.append('.%s(..) -> .vunwrap()' % mm.group(1))
            changed = True
            break
    return text, log


def split_sig(fn_text, body_open):
    return fn_text[:body_open], fn_text[body_open:]


def rewrite_sig(sig, ret, keepconst=False):
    """R1/R3 on the signature: drop const, widen visibility, name the return value."""
    log = []
    if not keepconst:
        s2 = re.sub(r'\bconst\s+(?=(?:unsafe\s+)?(?:extern\s+"[^"]*"\s+)?fn\b)', '', sig)
        if s2 != sig:
            log.append('drop const')
        sig = s2
    s2 = re.sub(r'\bpub\s*\((?:crate|super)\)', 'pub', sig)
    if s2 != sig:
        log.append('pub(crate) -> pub')
    sig = s2
    # find '->' at depth 0 after the parameter list
    mask = code_mask(sig)
    op = sig.find('(')
    cl = match_close(sig, mask, op)
    tail = sig[cl + 1:]
    mm = re.match(r'(\s*)->\s*', tail)
    where = ''
    rettype = None
    if mm:
        rest = tail[mm.end():]
        # split at top-level `where`
        d = 0
        wpos = None
        for i, ch in enumerate(rest):
            if ch in '(<[':
                d += 1
            elif ch in ')>]':
                d -= 1
            elif d == 0 and rest.startswith('where', i) and (i == 0 or not (rest[i - 1].isalnum() or rest[i - 1] == '_')) and not (rest[i + 5:i + 6].isalnum()):
                wpos = i
                break
        if wpos is not None:
            rettype = rest[:wpos].strip()
            where = rest[wpos:].rstrip()
        else:
            rettype = rest.strip()
        head = sig[:cl + 1] + ' -> (%s: %s)' % (ret, rettype)
    else:
        mw = re.search(r'\bwhere\b', tail)
        if mw:
            where = tail[mw.start():].rstrip()
        head = sig[:cl + 1]
    if where:
        # Verus wants the where clause terminated by a comma before requires/ensures
        w = where.rstrip()
        if not w.endswith(','):
            w += ','
        head = head + '\n    ' + w
    return head, rettype, log


def insert_loop_specs(body, loops):
    if not loops:
        return body
    mask = code_mask(body)
    pat = re.compile(r'\b(while|loop|for)\b')
    found = []
    for mm in pat.finditer(body):
        if mask[mm.start()]:
            found.append(mm)
    edits = []
    for n, lines in loops.items():
        if n >= len(found):
            raise SpecError('loop %d not found' % n)
        mm = found[n]
        # body brace: first '{' at paren depth 0 after the keyword
        d = 0
        i = mm.end()
        while i < len(body):
            if mask[i]:
                ch = body[i]
                if ch in '([':
                    d += 1
                elif ch in ')]':
                    d -= 1
                elif ch == '{' and d == 0:
                    break
            i += 1
        edits.append((i, '\n' + '\n'.join(lines) + '\n'))
    for pos, txt in sorted(edits, reverse=True):
        body = body[:pos] + txt + body[pos:]
    return body


def pub_fields(struct_text):
    """R2: make every field pub."""
    t = struct_text
    mask = code_mask(t)
    ob = None
    for i, ch in enumerate(t):
        if mask[i] and ch in '({':
            ob = i
            break
    if ob is None:
        return t  # unit struct
    cl = match_close(t, mask, ob)
    inner = t[ob + 1:cl]
    # split on top-level commas
    parts = []
    d = 0
    cur = ''
    im = code_mask(inner)
    for i, ch in enumerate(inner):
        if im[i]:
            if ch in '(<[{':
                d += 1
            elif ch in ')>]}':
                d -= 1
            if ch == ',' and d == 0:
                parts.append(cur)
                cur = ''
                continue
        cur += ch
    if cur.strip():
        parts.append(cur)
    newp = []
    for p in parts:
        # strip comments & attrs in field
        lines = [l for l in p.split('\n') if not l.strip().startswith('//')]
        q = '\n'.join(lines)
        q = re.sub(r'#\[[^\]]*\]', '', q)
        q2 = re.sub(r'^\s*pub(\s*\([^)]*\))?\s+', '', q.strip())
        newp.append('pub ' + q2.strip())
    sep = ', ' if t[ob] == '(' else ',\n    '
    pre = '' if t[ob] == '(' else '\n    '
    post = '' if t[ob] == '(' else ',\n'
    return t[:ob + 1] + pre + sep.join(newp) + post + t[cl:]



def extract_requires(spec_lines):
    """Text of the requires clause (without the keyword), or '' if there is none."""
    txt = '\n'.join(l for l in spec_lines if not l.strip().startswith('//'))
    m = re.search(r'\brequires\b', txt)
    if not m:
        return ''
    rest = txt[m.end():]
    m2 = re.search(r'(?m)^\s*(ensures|decreases|recommends|no_unwind|opens_invariants)\b', rest)
    if m2:
        rest = rest[:m2.start()]
    return rest.strip()


def fix_old(req):
    req = re.sub(r'\bold\(\s*(\w+)\s*\)', r'\1', req)
    return req


def make_probe_head(head, name):
    """proof fn signature with the same generics and parameters (references to mutable state become values)."""
    h = head
    h = re.sub(r'->\s*\(\s*\w+\s*:[^{]*?\)\s*(?=(where\b|$))', '', h, flags=re.S)
    h = re.sub(r'(?<!\*)\b(pub|unsafe|const|extern\s+"[^"]*")\s+', '', h)
    h = re.sub(r'\bfn\s+%s\b' % re.escape(name), 'proof fn vacuity_probe__' + name, h, count=1)
    h = h.replace('&mut self', '&self').replace("&'a mut ", "&'a ").replace('&mut ', '&')
    h = re.sub(r'\bmut\s+self\b', 'self', h)
    if 'impl ' in h or 'dyn ' in h:
        return None
    return h.strip()


CFG_TRUE = ('feature = "instructions"', 'feature = "step_trait"', 'target_arch = "x86_64"',
            'target_pointer_width = "64"', 'feature = "abi_x86_interrupt"')


# ---------------------------------------------------------------------------

class Weaver:
    def __init__(self, repo, spec_files, prelude, mode, degraded=None):
        self.repo = repo
        self.mode = mode  # 'A' or 'B'
        # (file, normalised impl header, fn name) -> reason. A function whose text can no longer be brought
        # into Verus's reach (a mandatory rewrite lost its anchor, or Verus rejected the file at a span inside
        # it) is woven signature + contract only (external_body); its obligations are reported undecided and
        # every OTHER function is still verified (against this function's contract, as always).
        self.degraded = degraded if degraded is not None else {}
        self.srcs = {}
        self.out = []      # list of (text, origin)
        self.funcs = []    # metadata per woven fn
        self.rewrites = []
        self.prelude = prelude
        self.spec_files = spec_files
        self.blocks = []   # ordered list of [header, [member texts], origin]
        self.trait_blocks = {}

    def src(self, rel):
        if rel not in self.srcs:
            self.srcs[rel] = Source(os.path.join(self.repo, rel), rel)
        return self.srcs[rel]

    def emit(self, text, origin):
        # every spec-side lemma gets its own solver instance: its verdict must not depend on /repo's text
        if origin[0] in ('prelude', 'spec'):
            text = re.sub(r'(?m)^(?!.*spinoff_prover)([ \t]*)(pub proof fn )', r'\1#[verifier::spinoff_prover] \2', text)
        self.out.append((text.rstrip('\n') + '\n', origin))

    def emit_fn_block(self, header, member, origin, is_trait):
        if is_trait:
            key = norm(header)
            if key in self.trait_blocks:
                self.trait_blocks[key][1].append((member, origin))
                return
            blk = [header, [(member, origin)], origin]
            self.trait_blocks[key] = blk
            self.out.append(blk)
        else:
            self.out.append([header, [(member, origin)], origin])

    def weave(self):
        with open(self.prelude, encoding='utf-8') as f:
            self.emit(f.read(), ('prelude', self.prelude, 1))
        for sp in self.spec_files:
            for it in parse_spec(sp):
                self.weave_item(it)
        return self.render()

    def weave_item(self, it):
        k = it['kind']
        origin_spec = ('spec', it['spec'], it['line'])
        if k == 'verbatim':
            if ('A' if self.mode == 'P' else self.mode) in it['mode']:
                self.emit('\n'.join(it['text']), ('spec', it['spec'], it['line'] + 1))
        elif k == 'struct':
            s = self.src(it['file'])
            r = s.find_item('struct', it['name'])
            attrs = [a for a in r['attrs'] if re.match(r'#\[(derive|repr)', a)]
            # Debug derive needs Debug on fields; drop Debug to avoid needing fmt
            attrs = [re.sub(r'\bDebug\s*,\s*|,\s*Debug\b|\bDebug\b', '', a) for a in attrs]
            attrs = [a for a in attrs if not re.match(r'#\[derive\(\s*\)\]', a)]
            txt = '\n'.join(attrs) + '\n' + pub_fields(re.sub(r'^pub\s*\([^)]*\)', 'pub', r['text']))
            if not txt.lstrip().startswith('#') and not txt.lstrip().startswith('pub'):
                pass
            txt = re.sub(r'(?m)^(\s*)struct\b', r'\1pub struct', txt) if not re.search(r'\bpub\s+struct\b', txt) else txt
            self.emit(txt, ('repo', it['file'], r['line_first']))
            self.funcs.append(dict(kind='struct', name=it['name'], file=it['file'], lines=[r['line_first'], r['line_last']], sha256=r['sha256']))
        elif k == 'enum':
            s = self.src(it['file'])
            r = s.find_item('enum', it['name'])
            attrs = [a for a in r['attrs'] if re.match(r'#\[(derive|repr)', a)]
            attrs = [re.sub(r'\bDebug\s*,\s*|,\s*Debug\b|\bDebug\b', '', a) for a in attrs]
            attrs = [a for a in attrs if not re.match(r'#\[derive\(\s*\)\]', a)]
            body = '\n'.join(l for l in r['text'].split('\n') if not l.strip().startswith('//'))
            self.emit('\n'.join(attrs) + '\n' + body, ('repo', it['file'], r['line_first']))
            self.funcs.append(dict(kind='enum', name=it['name'], file=it['file'], lines=[r['line_first'], r['line_last']], sha256=r['sha256']))
        elif k == 'const':
            s = self.src(it['file'])
            r = s.find_item('const', it['name'])
            txt = re.sub(r'^pub\s*\([^)]*\)', 'pub', r['text'])
            if not txt.startswith('pub'):
                txt = 'pub ' + txt
            self.emit(txt, ('repo', it['file'], r['line_first']))
            self.funcs.append(dict(kind='const', name=it['name'], file=it['file'], lines=[r['line_first'], r['line_last']], sha256=r['sha256']))
        elif k in ('trait', 'implblock'):
            s = self.src(it['file'])
            if k == 'trait':
                r = s.find_item(r'(?:unsafe\s+)?trait', it['name'])
                txt = r['text']
                first = r['line_first']
            else:
                want = norm(it['header'])
                cands = [b for b in s.impl_blocks() if b[0] == want]
                if not cands:
                    raise ExtractError('%s: no block with header `%s`' % (it['file'], want))
                (_h, hstart, ob, cb, _a) = cands[0]
                txt = s.text[hstart:cb + 1]
                first = s.line_of(hstart)
            from extract import strip_comments
            txt = strip_comments(txt)
            txt = re.sub(r'(?m)^\s*#\[[^\]]*\]\s*$', '', txt)
            if it['drop']:
                txt = '\n'.join(l for l in txt.split('\n') if not re.search(it['drop'], l))
                self.rewrites.append('%s %s: dropped lines matching /%s/' % (k, it.get('name') or it.get('header'), it['drop']))
            txt = re.sub(r'^pub\s*\([^)]*\)', 'pub', txt)
            self.emit(txt, ('repo', it['file'], first))
            import hashlib
            self.funcs.append(dict(kind=k, name=it.get('name') or it.get('header'), file=it['file'], lines=[first, first + txt.count('\n')],
                                   sha256=hashlib.sha256(txt.encode()).hexdigest()))
        elif k == 'implconsts':
            s = self.src(it['file'])
            items = s.impl_assoc(it['header'])
            self.emit(it['header'] + ' {\n    ' + '\n    '.join(items) + '\n}', origin_spec)
        elif k == 'bitflags':
            self.weave_bitflags(it)
        elif k == 'fn':
            self.weave_fn(it)

    def weave_bitflags(self, it):
        s = self.src(it['file'])
        blk = s.find_macro_block('bitflags', 'struct %s' % it['name'])
        txt = blk['text']
        mm = re.search(r'struct\s+%s\s*:\s*(\w+)\s*\{' % re.escape(it['name']), txt)
        if not mm:
            raise ExtractError('%s: bitflags struct %s not found' % (it['file'], it['name']))
        mask = code_mask(txt)
        ob = mm.end() - 1
        cb = match_close(txt, mask, ob)
        inner = txt[ob + 1:cb]
        im = code_mask(inner)
        code = ''.join(ch if im[i] else ' ' for i, ch in enumerate(inner))
        consts = re.findall(r'const\s+(\w+)\s*=\s*([^;]+);', code)
        bits_ty = mm.group(1)
        N = it['name']
        with open(os.path.join(os.path.dirname(self.prelude), 'bitflags_model.rs.tmpl'), encoding='utf-8') as tf:
            tmpl = tf.read()
        lines = [tmpl.replace('@N@', N).replace('@T@', bits_ty).replace('@A@', N.lower() + '_all_bits')]
        lines.append('impl %s {' % N)
        for (n, e) in consts:
            e2 = re.sub(r'\bSelf::(\w+)\.bits\(\)', r'Self::\1.bits', e.strip())
            lines.append('    pub const %s: %s = %s { bits: %s };' % (n, it['name'], it['name'], e2))
        lines.append('}')
        # spec-level mirror of all(): OR of every constant
        allexpr = ' | '.join('%s::%s.bits' % (it['name'], n) for (n, _e) in consts) or '0'
        lines.append('pub open spec fn %s_all_bits() -> %s { %s }' % (it['name'].lower(), bits_ty, '(' + allexpr + ') as ' + bits_ty))
        lines.append('pub fn %s_all_bits_exec() -> (r: %s) ensures r == %s_all_bits() { %s }' % (it['name'].lower(), bits_ty, it['name'].lower(), allexpr))
        self.emit('\n'.join(lines), ('repo', it['file'], blk['line_first']))
        self.funcs.append(dict(kind='bitflags', name=it['name'], file=it['file'], lines=[blk['line_first'], blk['line_last']],
                               consts=[c[0] for c in consts]))

    def weave_fn(self, it):
        if it['only'] and it['only'] != ('A' if self.mode == 'P' else self.mode):
            return
        s = self.src(it['file'])
        try:
            r = s.find_fn(it['header'], it['name'])
        except ExtractError as e:
            # the function is no longer where the contract says (renamed, moved behind a macro, removed): nothing is
            # emitted for it and its obligations are undecided; everything else is still verified. If woven code
            # calls it, Verus rejects those callers and e2.run degrades them too.
            dkey = (it['file'], norm(it['header'] or ''), it['name'])
            self.degraded[dkey] = 'lost anchor: %s' % e
            self.funcs.append(dict(kind='fn', name=(it['rename'] or it['name']), header=it['as_header'] or it['header'], file=it['file'],
                                   probe_idx=None, lines=[0, 0], sha256='', obligations=it['obligations'], rewrites=[], mode=self.mode,
                                   degraded=self.degraded[dkey], missing=True, orig_header=it['header'], orig_name=it['name'],
                                   spec=os.path.basename(it['spec']), spec_section='-', n_clauses=0))
            return
        # cfg evaluation (R1): every cfg on the fn or impl must be in the true set
        for a in r['attrs'] + r.get('impl_attrs', []):
            mm = re.match(r'#\[cfg\((.*)\)\]$', a.strip(), re.S)
            if mm:
                cond = mm.group(1)
                atoms = re.findall(r'(?:feature|target_arch|target_pointer_width)\s*=\s*"[^"]*"', cond)
                if not atoms or any(norm(x) not in CFG_TRUE for x in atoms) or 'not(' in cond:
                    raise SpecError('%s: cfg `%s` on %s is not in the evaluated-true set' % (it['file'], cond, it['name']))
        text = r['text']
        log = []
        dkey = (it['file'], norm(it['header'] or ''), it['name'])
        forced = self.degraded.get(dkey)
        for sub in it['subs']:
            pat, rep = sub[0], sub[1]
            optional = len(sub) > 2 and sub[2]
            t2, n = re.subn(pat, rep, text)
            if n == 0:
                if optional:
                    log.append('optional sub /%s/ did not match (code changed); woven without it' % pat)
                    continue
                if it.get('bodyless'):
                    continue
                forced = '%s: sub /%s/ matched nothing in %s (lost anchor)' % (it['file'], pat, it['name'])
                self.degraded[dkey] = forced
                continue
            log.append('sub /%s/ => %s (%d)' % (pat, rep, n))
            text = t2
        if forced and not it.get('bodyless'):
            it = dict(it, bodyless=True)
            log.append('DEGRADED to signature + contract only: ' + forced)
        else:
            forced = None
        # recompute body_open after subs
        mask = code_mask(text)
        d = 0
        bo = None
        for i, ch in enumerate(text):
            if not mask[i]:
                continue
            if ch in '([':
                d += 1
            elif ch in ')]':
                d -= 1
            elif ch == '{' and d == 0:
                bo = i
                break
        sig, body = split_sig(text, bo)
        head, rettype, l2 = rewrite_sig(sig, it['ret'], it.get('keepconst', False))
        log += l2
        if it['rename']:
            head = re.sub(r'\bfn\s+%s\b' % re.escape(it['name']), 'fn ' + it['rename'], head, count=1)
            log.append('rename %s -> %s' % (it['name'], it['rename']))
        spec_lines = it['A'] if (self.mode in ('A', 'P') or it['B'] is None) else it['B']
        sec_used = 'A' if (self.mode in ('A', 'P') or it['B'] is None) else 'B'
        proof = list(it['proof']) + (it['proofA'] if self.mode in ('A', 'P') else it['proofB'])
        if it.get('bodylessA') and self.mode in ('A', 'P'):
            it = dict(it, bodyless=True)
        if it.get('bodyless'):
            body = '{ unimplemented!() }'
            head = '#[verifier::external_body]\n    ' + head
            log.append('body not verified: signature + contract only (external_body)')
        body = insert_loop_specs(body, it['loops'])
        if self.mode == 'B':
            body, l3 = mode_b_rewrite(body)
            log += l3
        if proof:
            body = '{\n        proof {\n' + '\n'.join(proof) + '\n        }' + body[1:]
        member_lines = []
        member_lines.append('    ' + head)
        member_lines += spec_lines
        member = '\n'.join(member_lines) + '\n    ' + body + '\n'
        header = it['as_header'] or it['header']
        is_trait = bool(header) and re.search(r'\bfor\b', re.sub(r'<[^<>]*>', '', header)) is not None and it['as_header'] is None
        origin = dict(kind='fn', file=it['file'], first=r['line_first'], last=r['line_last'],
                      spec=it['spec'], spec_line=it['seclines'].get(sec_used, it['line']),
                      n_head=1 + head.count('\n'), n_spec=len(spec_lines), n_proof=(len(proof) + 2 if proof else 0),
                      fn_idx=len(self.funcs))
        if header:
            if is_trait:
                key = norm(header)
                if key not in self.trait_blocks:
                    assoc = s.impl_assoc(it['header'])
                    self.emit_fn_block(header, '    ' + '\n    '.join(assoc) + '\n' if assoc else '', ('spec', it['spec'], it['line']), True)
            self.emit_fn_block(header, member, origin, is_trait)
        else:
            self.out.append(['', [(member, origin)], origin])
        probe_idx = None
        if self.mode == 'P' and not is_trait and not it.get('bodyless'):
            req = extract_requires(spec_lines)
            if req:
                ph = make_probe_head(head, it['rename'] or it['name'])
                if ph:
                    ptxt = '    ' + ph + '\n        requires ' + fix_old(req) + '\n    { assert(false); }\n'
                    porigin = dict(kind='fn', file=it['file'], first=r['line_first'], last=r['line_last'], spec=it['spec'],
                                   spec_line=it['seclines'].get(sec_used, it['line']), n_head=1 + ph.count('\n'), n_spec=1 + req.count('\n'),
                                   n_proof=0, fn_idx=len(self.funcs) + 1)
                    probe_idx = len(self.funcs) + 1
                    if header:
                        self.out.append([header, [(ptxt, porigin)], porigin])
                    else:
                        self.out.append(['', [(ptxt, porigin)], porigin])
        self.funcs.append(dict(kind='fn', name=(it['rename'] or it['name']), header=header, file=it['file'], probe_idx=probe_idx,
                               lines=[r['line_first'], r['line_last']], sha256=r['sha256'],
                               obligations=it['obligations'], rewrites=log, mode=self.mode, degraded=forced, orig_header=it['header'], orig_name=it['name'],
                               spec=os.path.basename(it['spec']), spec_section=sec_used,
                               n_clauses=sum(1 for l in spec_lines if l.strip() and not l.strip().startswith('//'))))
        if probe_idx is not None:
            self.funcs.append(dict(kind='probe', name='vacuity_probe__' + (it['rename'] or it['name']), header=header, file=it['file'],
                                   lines=[r['line_first'], r['line_last']], sha256='', obligations=[], probe_of=probe_idx - 1))

    def render(self):
        """Return (text, linemap) where linemap[i] describes woven line i+1."""
        lines = []
        lmap = []

        def add(text, origin_fn):
            for i, l in enumerate(text.rstrip('\n').split('\n')):
                lines.append(l)
                lmap.append(origin_fn(i))

        add('// GENERATED by /verif/lib/weave.py (mode %s). Function bodies are cut verbatim from /repo.\n'
            '#![allow(unused_imports, dead_code, unused_variables, unused_mut, unused_unsafe, non_snake_case, unused_parens, unused_assignments)]\n'
            'use vstd::prelude::*;\nverus! {\n' % self.mode, lambda i: ('gen', '', 0))
        for ent in self.out:
            if isinstance(ent, tuple):
                text, origin = ent
                kind, path, l0 = origin
                add(text, lambda i, k=kind, p=path, l=l0: (k, p, l + i))
            else:
                header, members, origin = ent
                if header:
                    add(header + ' {', lambda i: ('gen', '', 0))
                for (m, o) in members:
                    if isinstance(o, dict):
                        def of(i, o=o):
                            if i < o['n_head']:
                                return ('repo-sig', o['file'], o['first'], o['fn_idx'])
                            i2 = i - o['n_head']
                            if i2 < o['n_spec']:
                                return ('spec', o['spec'], o['spec_line'] + i2, o['fn_idx'])
                            i3 = i2 - o['n_spec']
                            # body (approximate when proof lines/loop specs were inserted)
                            return ('repo', o['file'], min(o['last'], o['first'] + max(0, i3 - o['n_proof'])), o['fn_idx'])
                        if m.strip():
                            add(m, of)
                    else:
                        if m.strip():
                            add(m, lambda i, o=o: (o[0], o[1], o[2]))
                if header:
                    add('}', lambda i: ('gen', '', 0))
        add('} // verus!\nfn main() {}\n', lambda i: ('gen', '', 0))
        return '\n'.join(lines) + '\n', lmap


def weave_all(repo, spec_files, prelude, outdir, modes=('A', 'B'), degraded=None):
    os.makedirs(outdir, exist_ok=True)
    res = {}
    degraded = degraded if degraded is not None else {}
    # first pass finds lost anchors (any mode); the files written are those of the second pass, in which
    # every mode sees the same set of degraded functions
    for mode in modes:
        Weaver(repo, spec_files, prelude, mode, degraded).weave()
    for mode in modes:
        w = Weaver(repo, spec_files, prelude, mode, degraded)
        text, lmap = w.weave()
        path = os.path.join(outdir, 'x86_64_%s.rs' % mode)
        with open(path, 'w') as f:
            f.write(text)
        with open(os.path.join(outdir, 'x86_64_%s.map.json' % mode), 'w') as f:
            json.dump(dict(lines=lmap, funcs=w.funcs), f)
        res[mode] = dict(path=path, funcs=w.funcs, lmap=lmap)
    return res


if __name__ == '__main__':
    import argparse
    ap = argparse.ArgumentParser()
    ap.add_argument('--repo', default='/repo')
    ap.add_argument('--out', default='/verif/out/weave')
    ap.add_argument('--prelude', default='/verif/prelude/verus_prelude.rs')
    ap.add_argument('specs', nargs='+')
    a = ap.parse_args()
    r = weave_all(a.repo, a.specs, a.prelude, a.out)
    for m in r:
        print(m, r[m]['path'], len(r[m]['funcs']), 'items')
