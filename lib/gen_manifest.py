#!/usr/bin/env python3
"""Regenerates /verif/MANIFEST.json from the table below (kept as code so that texts stay in one place)."""
import json
import os

VERIF = os.path.dirname(os.path.dirname(os.path.abspath(__file__)))

E2 = 'verus-extract'
E1 = 'kani-inplace'
BOTH = 'verus-extract + kani-inplace'

CHECKS = {
 'C03': dict(engine=BOTH, cat='proof',
   tech='contract-based deductive verification: Verus requires/ensures on the real constructors/operators (type invariant as pre/postcondition), Kani full-domain twins',
   text='Every safe function of addr.rs / page.rs / frame.rs that returns an address, page or frame is cut verbatim out of /repo on every run and verified by Verus against requires wf(args) / ensures wf(result) plus the strongest postcondition from the statement (try_new: Ok iff canonical and unchanged; new_truncate == sign extension, idempotent, low-48-bit dependent; PhysAddr analogues). Closure under arbitrary programs is the induction over the program with wf as invariant (fields are private, the unsafe constructors are excluded). Entry::handler_addr and PageTableEntry::addr are covered by Kani/Verus obligations tagged C03; loop-free obligations also have complete Kani twins through the public API.',
   note='Trusted: Verus/Z3 and Kani/CBMC; extraction rewrites R1-R10 (DESIGN 4.3); assumed contracts for bit_field, is_power_of_two, vstd integer specs (cross-checked by Kani harnesses x_assumptions against the real crates); derive(PartialOrd) lexicographic; from_ptr is contracted over the pointer value as an uninterpreted u64; Cr2::read/read_rip are covered under C16.'),
 'C04': dict(engine=BOTH, cat='proof',
   tech='contract-based deductive verification: Verus postconditions equal to bit-field expressions, uniqueness lemma by bit_vector; Kani twins',
   text='p{1..4}_index/page_offset/page_table_index of VirtAddr and Page are proved equal to (addr >> {12,21,30,39}) & 0x1ff / addr & 0xfff for all u64; from_page_table_indices{,_2mib,_1gib} is proved to return the unique canonical aligned page with the given indices (forall-quantified uniqueness clause); PageTableIndex/PageOffset constructors return iff in range (mode B) and truncate by mod; PageTableLevel helpers against exact value tables.',
   note='Trusted: Verus/Z3 bit-vector decision procedure; extraction rewrites; enum discriminant cast semantics as implemented by Verus; Kani/CBMC for the twins.'),
 'C05': dict(engine=E2, cat='proof',
   tech='contract-based deductive verification: Verus contracts over pos() (rank in the contiguous canonical sequence) on the real step functions incl. the step_trait impls',
   text='forward_checked_u64/backward_checked_u64/steps_between_u64 and their usize/Step wrappers for VirtAddr, Page<S> (generic in S) and PageTableIndex are verified: Some iff the target rank exists, and then pos(result) == pos(start) +/- n (bytes / whole pages / indices 0..512); steps_between exact or (0, None). Mutual inverses follow from rank injectivity (lemma_pos_injective). Unbounded: all u64/usize inputs.',
   note='Trusted: Verus/Z3; BitField get_bits/set_bits contracts (assumed, cross-checked by Kani against the real crate); usize == 64 bits; impl Step emitted as inherent methods (core::iter::Step is unstable on Verus\'s toolchain); <u16 as Step>::steps_between replaced by a helper with an assumed contract; one closure in PageTableIndex::forward_checked carries an inserted contract annotation.'),
 'C06': dict(engine=BOTH, cat='proof',
   tech='contract-based deductive verification: Verus greatest/least-multiple quantified postconditions, mode B for "panics exactly when"; Kani twins over align = 1 << k',
   text='align_down/align_up (free, VirtAddr, PhysAddr), is_aligned, containing_address and from_start_address for pages and frames, generic in the page size, proved for all inputs: result is the greatest/least multiple (forall-quantified), canonical for alignments <= 2^47, returns iff power-of-two alignment and no overflow (2^64 / 2^52).',
   note='Trusted: Verus/Z3 incl. vstd nonlinear arithmetic lemmas; u64::is_power_of_two contract assumed (cross-checked by Kani); Into<u64> conversions per vstd, u64: Into<u64> identity assumed.'),
 'C07': dict(engine=BOTH, cat='proof',
   tech='contract-based deductive verification: Verus mode B (panics as divergence, implicit overflow not discharged) for operators; closed-form sequence view + next() contract for ranges; Kani exact-or-panic twins',
   text='Every Add/Sub/AddAssign/SubAssign impl of VirtAddr, PhysAddr, Page<S>, PhysFrame<S> is verified in mode B: a normal return implies the exact mathematical result is representable, valid and returned; plain + - * keep their overflow obligations so reliance on debug overflow checks fails. Ranges: is_empty/len/size equal the length of the abstract ascending sequence view(range); next() returns view[0] and leaves view.subrange(1..), without panic for bounds in one canonical half (incl. the last page of each half and the last frame); induction over calls gives all lengths.',
   note='Trusted: Verus/Z3; Iterator impls emitted as inherent next(); derive(PartialOrd) on Page/PhysFrame lexicographic (cross-checked by Kani). Two genuine defects were found by these obligations and fixed (known_findings.txt).'),
 'C08': dict(engine=BOTH, cat='proof',
   tech='contract-based deductive verification: Verus contracts on every PageTableEntry method; Kani layout/aliasing harnesses on the real PageTable type (constant-bound loops fully unwound)',
   text='Entries (Verus, all raw words/addresses/flags): set_addr/set_frame store addr | flags exactly, set_flags keeps the address mask, addr()/flags()/frame()/is_unused read back exactly, set_addr returns iff aligned. Table (Kani on the real type): size and alignment 4096, slot i at base + 8*i through Index<usize>, Index<PageTableIndex>, iter and iter_mut for symbolic i, little-endian raw words, new() all zero, zero()/is_empty over all 512 slots (loops of constant bound 512 unwound with unwinding assertions).',
   note='Trusted: Verus/Z3, Kani/CBMC; the bitflags model of prelude/bitflags_model.rs.tmpl (constants themselves are extracted; semantics cross-checked by Kani); flags() also reports address bit 12 as PAT_HUGE_PAGE, which is outside the property\'s flag domain.'),
 'C11': dict(engine=BOTH, cat='proof',
   tech='contract-based deductive verification: Verus loop invariant (ghost request log tiles the range) on the real InvlpgbFlushBuilder::flush; Kani event-log postconditions for tlb.rs via the abstract machine; token clause asserted in the mapper step harnesses',
   text='tlb::flush, flush_all, flush_pcid (all kinds, symbolic PCID/address), flush_broadcast register encoding and MapperFlush/MapperFlushAll are verified by Kani against the instruction event log (exactly one invlpg / invpcid descriptor / cr3 reload with the current value). The broadcast builder\'s chunking loop is proved unboundedly by Verus: every request <= min(max, 65535) pages, no lower-half request extends past 2^47, and the requests tile [start, end) contiguously; a bounded Kani twin over ranges <= 8 pages cross-checks it. "Token names the page" is an obligation of every mapper step harness that can succeed, together with "the page of the argument is the page whose leaf changed as dictated" and "no other address changed" (the same clauses C01 uses), so a token that names a page that did not change is reported. Invlpgb::new: with core::arch::x86_64::__cpuid stubbed, Some iff CPUID Fn8000_0008 EBX[3], per-request maximum == EDX[15:0], nested support == EBX[21], ASID count == Fn8000_000A EBX, no other leaf, panics outside ring 0.',
   note='Trusted: ISA table of prelude/verif_hw.rs (invlpg/invpcid/invlpgb/mov cr3 semantics), asm template text beyond arm selection; flush_broadcast is a contracted callee in the Verus proof (its encoding is proved by Kani); a request with count c is read as covering max(c,1) pages, the code\'s own reading (the AMD manual counts additional pages: an observation, not a finding). One genuine defect found and fixed (flush_all dropped the PCID bits). The mapper step clauses are bounded as in C01 and listed under bounded_obligations.'),
 'C12': dict(engine=E1, cat='proof',
   tech='contract-based verification with Kani: full-domain harnesses on the real IDT types with an independent gate decoder and an independent (field, vector) table',
   text='For symbolic vectors and (lo, hi) range pairs: entry v sits at byte 16*v through named field, index and slice; indexing panics exactly on the reserved / differently-typed vectors; slices refuse starts below 32; set_handler_addr encodes offset, current CS, present, interrupt gate, DPL 0, IST 0 per the architectural 16-byte format; each option setter changes only its field (frame condition on the remaining bits); missing()/reset()/new() are non-present gates with the must-be-one bits; load passes the table address and limit 4095 to lidt.',
   note='Trusted: Kani/CBMC; my transcription of the gate format and vector numbers; the lidt/CS arms of the ISA table.'),
 'C13': dict(engine=E1, cat='proof',
   tech='contract-based verification with Kani on the expanded set_general_handler! macro (present-set and frame condition); hardware delivery not decidable by contracts',
   text='In reach: for symbolic ranges the expanded macro leaves present exactly the non-reserved vectors in range and every other 16-byte entry bit-identical. Not in reach of any contract (stated, not claimed): stack-frame delivery by hardware, the error-code calling convention of the x86-interrupt ABI, resumption and iretq register effects.',
   note='Trusted: Kani/CBMC; HandlerFuncType::to_virt_addr is stubbed to truncate because CBMC function addresses are not canonical; the general handler argument wiring (index, error code) is covered only as far as Kani can call the generated stubs (see evidence).'),
 'C14': dict(engine=BOTH, cat='proof',
   tech='contract-based deductive verification: Verus representation invariant + abstract view on the real GDT code, generic in MAX; Kani for the lgdt operand',
   text='wf(gdt) = 1 <= len <= MAX <= 8192 and slot 0 null; empty() establishes it; append (mode A and B) returns iff the descriptor fits, then view == old view ++ words(descriptor), selector == (first slot << 3) | DPL with TI = 0; at the panic sites the table is proved unchanged; limit() == 8*len - 1; from_raw_entries reproduces the slice (loop invariant); entries() is the used prefix. Proved for the type parameter MAX itself, i.e. every capacity. load(): one lgdt with the table address and limit() (Kani).',
   note='Trusted: Verus/Z3; R1: the non-atomic arm of gdt::Entry is verified (AtomicU64 new/load assumed identity in one thread); R9: `[NULL; MAX]` replaced by a helper with the assumed array-fill contract; bitflags model for DescriptorFlags; lgdt arm of the ISA table.'),
 'C15': dict(engine=E1, cat='proof',
   tech='contract-based verification with Kani: full-domain harnesses with an independent descriptor decoder and offset_of! layout facts',
   text='tss_segment_unchecked for all 2^64 pointer values decodes to base = pointer, limit 0x67, type 0x9, present, DPL 0, reserved zero; the predefined descriptors decode to what their names state; dpl() == bits 45-46 for all patterns; TaskStateSegment and DescriptorTablePointer layouts (offsets 4 / 0x24 / 0x66, size 0x68, iomap_base 0x68; limit @0, base @2, size 10).',
   note='Trusted: Kani/CBMC; my transcription of the descriptor format.'),
 'C16': dict(engine=E1, cat='proof',
   tech='contract-based verification with Kani: postconditions over an abstract machine (register file + instruction event log) that replaces asm!; symbolic prior register contents and arguments',
   text='For every wrapper named in the property: the right register / MSR index with the edx:eax split, exactly one write event, typed write == (old & !modelled) | value where the wrapper documents preservation and exact store where it documents overwriting, raw write exact, typed read == modelled bits of the raw value, update == read-modify-write for an arbitrary closure result, write-then-read round trips (CR3 frame/flags/PCID/no-flush, STAR selectors, bases, PAT, APIC base, CET, DR7 fields), documented rejections happen before any write (trap in the machine).',
   note='Trusted: the ISA table of prelude/verif_hw.rs (instruction semantics, ring 0, no faults); asm template edits that keep the same arm are invisible; Star::read/write selector arithmetic outside its stated domain (selectors < 8 / > 0xFFEF) is assumed away and listed. Two genuine defects found and fixed (ApicBase::write, SFMask::read).'),
 'C17': dict(engine=E1, cat='proof',
   tech='contract-based verification with Kani: inductive closure contract for without_interrupts over the abstract machine (IF in modelled RFLAGS, asm-block numbers in the event log)',
   text='Step contract: for an arbitrary closure effect that leaves IF as it found it, without_interrupts runs it exactly once with IF clear, returns its result and leaves IF as before, for both initial values; since the hypothesis on the closure is the conclusion about without_interrupts, every nesting depth follows by induction (depth 2/3 and branching runs as sanity). enable/disable change only bit 9 with one sti/cli; are_enabled reads bit 9; enable_and_hlt logs sti, hlt in ONE asm block with nothing between.',
   note='Trusted: the ISA table (sti/cli/hlt/pushfq/popfq semantics); Kani/CBMC.'),
 'C18': dict(engine=E1, cat='proof',
   tech='contract-based verification with Kani: event-log postconditions over the abstract machine for the real port code',
   text='For symbolic port number, value and device value and all three widths and access kinds: exactly one In/Out event of the object\'s width on the object\'s port, value transferred exactly, no other event; PartialEq iff ports equal; clone keeps the port. Loop-free, complete for all 65536 ports x all values.',
   note='Trusted: Kani/CBMC; the in/out arms of the ISA table; register binding is taken from the real operand list.'),
 'C19': dict(engine=E1, cat='proof',
   tech='contract-based verification with Kani: every public constant evaluated against an independent table written from the manuals (generator scans the source) + full-domain codec contracts',
   text='A generator scans the source for every bitflags constant, MSR number and enum discriminant and emits one assertion per constant against spec/arch_constants.toml (a constant missing on either side is an error, exit 2); the small codecs (SegmentSelector, PrivilegeLevel, Dr7 fields, Pcid, ExceptionVector, PatMemoryType, SelectorErrorCode, ...) are verified over their full input domains, including "rejects exactly the invalid encodings".',
   note='Trusted: my transcription of the Intel SDM / AMD APM in arch_constants.toml; Kani/CBMC.'),
 'C20': dict(engine=BOTH, cat='proof',
   tech='contract-based deductive verification: Verus contract on the real RecursivePageTable::new over a ghost CR3 and an uninterpreted table address; Kani full-domain harnesses for p1/p2/p3_page',
   text='new(): Ok iff the four indices of the table address agree and the slot at that index is present and points to the frame in CR3; NotRecursive / NotActive exactly otherwise, in that order; recursive_index == the common index (Verus, all addresses, CR3 values and slot contents). p3_page/p2_page/p1_page (private, reached by harness injection) equal the recursive index repeated 3/2/1 times followed by the page\'s upper indices, sign-extended, for all 512 indices and all pages (Kani).',
   note='Trusted: R8: the cast `table as *const _ as u64` is replaced by an uninterpreted address function; R10: `!=` on Result<PhysFrame, FrameError> replaced by a helper with the derived-PartialEq contract; Cr3::read is a contracted callee here (verified under C16).'),
 'C01': dict(engine=E1, cat='other',
   tech='contract-based verification with Kani: proved walker/trait building blocks + bounded one-step harnesses (pre/post comparison against an independent hardware-style walker) on MappedPageTable with an arbitrary frame mapping',
   text='Complete proofs: PageTableWalker::next_table/next_table_mut/create_next_table over one symbolic entry, all error conversions, Mapper::map_to parent-flag derivation, identity_map, translate_addr, PhysOffset::frame_to_pointer. Bounded stand-in: one-step harnesses per operation x page size x path shape from an arbitrary sparse pre-state over a pool of separate page tables, checked against an independent walker over the raw words; all histories follow by induction over steps within those bounds. OffsetPageTable by composition: MappedPageTable is checked for an arbitrary P, PhysOffset::frame_to_pointer == offset + frame is proved, and each of the 23 forwarding methods of offset_page_table.rs is verified by Verus to return exactly what the same-named inner method returns for the same arguments. RecursivePageTable: create_next_table (complete) and bounded step harnesses for every operation of the three page sizes and every set_flags_pN_entry, through a software-MMU stub of VirtAddr::as_mut_ptr (the recursive address is resolved by the oracle\'s own walk from CR3; an address that leaves the page tables reaches a trap table and fails a named clause).',
   note='Bounded: pool of 7 separate tables with symbolic pairwise-distinct frame addresses, tree-shaped sparse pre-state with symbolic neighbour words, four concrete index tuples with pairwise distinct indices (one per harness; quick tier runs a representative subset), symbolic probe address; recursive index fixed to 300; clean_up not covered here (C10, MappedPageTable only). Trusted: Kani/CBMC; PageTable::zero replaced by its contract (proved under C08) inside the step harnesses.'),
 'C02': dict(engine=E1, cat='other',
   tech='contract-based verification with Kani: error-shape obligations and unchanged-on-error frame conditions in the bounded one-step harnesses; create_next_table error paths proved completely',
   text='For each path shape the documented error is asserted exactly (PageAlreadyMapped, ParentEntryHugePage, PageNotMapped, FrameAllocationFailed at each of the up to three allocation points) and on every Err the independent walker\'s answer for the target and a symbolic probe is unchanged and only parent flags were added. create_next_table\'s error paths are complete proofs over a symbolic entry.',
   note='Bounded as C01. Two genuine defects found and fixed (d104422: a failed map_to widened a huge page\'s flags; 22293bc: RecursivePageTable update_flags / translate_page / set_flags_p2_entry walked through a huge parent into its data frame); fourteen obligations (2 MiB / 1 GiB update_flags and translate_page on table-pointing entries, set_flags_p3/p2_entry on huge leaves, both mappers) are OPEN known findings (known_findings.txt): the check prints KNOWN-FINDING for them and exits 0.'),
 'C10': dict(engine=E1, cat='other',
   tech='contract-based verification with Kani: bounded clean_up_addr_range checks on concrete page-table hierarchies (literal tables so CBMC constant-propagates the 512-entry scans), deallocator log and pre/post comparison against an independent walker',
   text='Bounded stand-in only. For MappedPageTable::clean_up_addr_range on nine hand-picked concrete hierarchies (window inside a P1, window inside a P2, huge pages in P2 and P3, middle P1, two P1s across a boundary, empty range; thorough: full chain, canonical gap, last page) and for RecursivePageTable::clean_up_addr_range on nine more (recursive index 1, recursive addresses resolved by a software MMU over the pool: level-3 / level-2 index equal to the recursive index, range inside the recursive window, ranges straddling the recursive slot, mapped P1, huge pages; plus the clause that the recursive slot is never descended into, cleared or freed) the harness asserts: every freed frame is a level-1..3 table of an allowed set that was empty at that moment, never the level-4 table / a huge frame / an unknown frame; each freed once and only after its parent slot was cleared; every table wholly inside the range that is or becomes empty was freed; through one symbolic (table, slot) every word is zero if it linked a freed table and unchanged otherwise; an independent walk of a symbolic address gives the same translation before and after; a second call frees and writes nothing.',
   note='Bounded: concrete pre-states (one symbolic table word already exhausts 14 GB), concrete ranges, pool of 7 tables, recursive index 1. NOT covered: clean_up() over the whole address space (no verdict in 25 min), ranges covering a whole level-2/3 table, symbolic hierarchies, other recursive indices. Nothing here is counted as proved.'),
 'C09': dict(engine=E1, cat='other',
   tech='contract-based verification with Kani: word-by-word frame condition over the whole table pool through one symbolic (table, slot), allocator call counting, zero-before-use ghost flag, pointer checks for any access outside the pool',
   text='In every step harness all pool tables are compared before/after through one symbolic (table, slot) pair so only the dictated slots may change; data frames are not backed by objects: for MappedPageTable a frame_to_pointer request outside the pool, for RecursivePageTable a recursive address that does not resolve (by the hardware walk from CR3) to a page table of the pool is counted and fails the named clause no_access_outside_page_tables; allocator calls are counted (<= 1/2/3, none when tables exist, none in other operations); a fresh table is zeroed before its first entry is written. create_next_table (both mappers): allocation iff the entry word is zero, none for any non-zero word, zeroed before return (complete proof).',
   note='Bounded as C01; clean_up (the only releasing operation) is checked under C10 for MappedPageTable only. The walk-through defect repaired by 22293bc was a C09 violation too (writes into mapped data).'),
}
 # (C10 moved to CHECKS: a bounded Kani check over concrete hierarchies exists since lib/C10_NOTES.md)
NOT_APPLICABLE = {
 'C10_old': "clean_up's recursive scan (iterator adapters over 512 entries per table through raw pointers) is outside Verus's subset without rewriting it and the smallest Kani scenario (4 tables, one-page range) did not finish in 14 min / 15 GB; no contract within reach decides it (DESIGN.md C10)",
}


def main():
    props = [json.loads(l) for l in open(os.path.join(VERIF, 'properties.jsonl'))]
    have = set()
    # only claim what has at least one obligation registered
    import sys
    sys.path.insert(0, os.path.join(VERIF, 'lib'))
    claimed = [p for p in sorted(CHECKS) if os.environ.get('CLAIM_' + p, '1') != '0']
    m = dict(version=1, setup_cmd='cd /verif && ./setup.sh',
             hooks=dict(guard='kani', enable='no source hooks in /repo: every check copies the working tree to a scratch directory, renames asm! to the abstract-machine macro there and injects the harness files with include!; Kani sets cfg(kani)',
                        baseline_off_cmd='cd /repo && cargo test --workspace --no-fail-fast --offline', source_commits=[], add_only=True),
             engines=[
                 dict(name=E2, path='lib/extract.py lib/weave.py lib/e2.py spec/ prelude/verus_prelude.rs', serves_properties=[p for p in claimed if E2 in CHECKS[p]['engine']],
                      kind_free_text='E2: functions cut verbatim from /repo on every run, woven with sidecar contracts, verified by Verus in modes A (total), B (exact-or-panic) and P (vacuity probes)'),
                 dict(name=E1, path='lib/stage.py lib/kani_run.py prelude/verif_hw.rs harness/ lib/gen_c19.py', serves_properties=[p for p in claimed if E1 in CHECKS[p]['engine']],
                      kind_free_text='E1: Kani on a scratch copy of the working tree (asm! -> abstract machine), contracts/assertions in injected harness files, concrete playback for counterexamples'),
             ], checks=[], notes='Contract-based deductive verification: Verus on extracted real functions (E2), Kani on the real crate with an abstract machine for asm (E1). See DESIGN.md. Known findings: known_findings.txt.',
             not_applicable=[])
    for pid in claimed:
        c = CHECKS[pid]
        m['checks'].append(dict(property_id=pid, quick_cmd='./check %s --tier quick' % pid, thorough_cmd='./check %s --tier thorough' % pid,
                                evidence_file='/verif/evidence/%s.json' % pid, replay_cmd_template='./check %s --replay {path}' % pid,
                                engine=c['engine'], level_claimed=dict(category=c['cat'], text=c['text'], design_ref='DESIGN.md section 5, ' + pid),
                                level_note=c['note'], technique=c['tech']))
    for p in props:
        if p['id'] in NOT_APPLICABLE:
            m['not_applicable'].append(dict(property_id=p['id'], reason=NOT_APPLICABLE[p['id']]))
        elif p['id'] not in claimed:
            m['not_applicable'].append(dict(property_id=p['id'], reason='check not finished in this round; see DESIGN.md section 5 for the plan'))
    with open(os.path.join(VERIF, 'MANIFEST.json'), 'w') as f:
        json.dump(m, f, indent=1)
    print('claimed:', ' '.join(claimed))


if __name__ == '__main__':
    main()
