#!/usr/bin/env python3
"""E1 staging: scratch copy of /repo + the mechanical transforms T1-T3.

    from stage import stage
    info = stage('/var/tmp/verif-1234-e1')

CLI:  python3 lib/stage.py <dest> [--repo DIR] [--harness-dir DIR] [--json]

Transforms (DESIGN.md 4.1), all purely textual, all counted in the result:

  T1  drop `#[cfg(kani)] mod proofs { ... }` from src/addr.rs
  T2  `asm!(` / `core::arch::asm!(`  ->  `crate::hw_asm!(`  in src/**/*.rs,
      drop the now unused `use core::arch::asm;` imports, install
      prelude/verif_hw.rs as src/verif_hw.rs, declare it in src/lib.rs
  T3  copy every harness/*.rs into <dest>/verif_harness/ and append
      `include!("<abs path of the copy>");` to the module its
      `//@ include-into <path>` directive names

plus: .cargo/config.toml with `[net] offline = true`, rust-toolchain(.toml)
removed from the copy (cargo kani must use its own pinned toolchain).

Only comments, strings and char literals are lexed (so that `asm!(` inside a
comment or a brace inside a string is not touched); nothing else about Rust is
parsed.  The transforms therefore keep working when function bodies, constants
or asm templates in /repo are edited.

python3 stdlib only.
"""

import json
import os
import re
import shutil
import subprocess
import sys

VERIF = os.path.dirname(os.path.dirname(os.path.abspath(__file__)))
DEFAULT_REPO = '/repo'
DEFAULT_HARNESS_DIR = os.path.join(VERIF, 'harness')
DEFAULT_PRELUDE = os.path.join(VERIF, 'prelude', 'verif_hw.rs')

LIB_RS_TRAILER = (
    '\n// ---- appended by /verif/lib/stage.py (T2) ----\n'
    '#[doc(hidden)]\n'
    '#[macro_use]\n'
    'pub mod verif_hw;\n'
)


class StageError(Exception):
    pass


# ---------------------------------------------------------------------------
# minimal Rust lexer: which byte offsets are code (not comment/string/char)

def code_mask(text):
    """Return a bytearray m with m[i] == 1 iff text[i] is code, i.e. outside
    comments, string literals (plain, byte, raw) and char literals."""
    n = len(text)
    m = bytearray(b'\x01') * n
    i = 0

    def blank(a, b):
        for k in range(a, min(b, n)):
            m[k] = 0

    while i < n:
        c = text[i]
        nxt = text[i + 1] if i + 1 < n else ''
        if c == '/' and nxt == '/':
            j = text.find('\n', i)
            if j < 0:
                j = n
            blank(i, j)
            i = j
        elif c == '/' and nxt == '*':
            depth = 1
            j = i + 2
            while j < n and depth:
                if text.startswith('/*', j):
                    depth += 1
                    j += 2
                elif text.startswith('*/', j):
                    depth -= 1
                    j += 2
                else:
                    j += 1
            blank(i, j)
            i = j
        elif c == '"':
            j = i + 1
            while j < n and text[j] != '"':
                j += 2 if text[j] == '\\' else 1
            blank(i, j + 1)
            i = j + 1
        elif c == 'r' and (nxt == '"' or nxt == '#') and not _ident_char(text[i - 1] if i else ''):
            # raw string r"..." / r#"..."#   (br"..." is caught at the r)
            j = i + 1
            hashes = 0
            while j < n and text[j] == '#':
                hashes += 1
                j += 1
            if j < n and text[j] == '"':
                close = '"' + '#' * hashes
                k = text.find(close, j + 1)
                if k < 0:
                    k = n
                blank(i, k + len(close))
                i = k + len(close)
            else:
                i += 1  # r#ident
        elif c == "'":
            # char literal or lifetime
            if nxt == '\\':
                j = text.find("'", i + 2)
                # '\'' : the quote right after the backslash is escaped
                if j == i + 2:
                    j = text.find("'", i + 3)
                if j < 0:
                    j = n
                blank(i, j + 1)
                i = j + 1
            elif i + 2 < n and text[i + 2] == "'":
                blank(i, i + 3)
                i += 3
            else:
                i += 1  # lifetime
        else:
            i += 1
    return m


def _ident_char(ch):
    return ch.isalnum() or ch == '_'


def match_brace(text, mask, open_idx):
    """Index of the `}` matching the `{` at open_idx (code braces only)."""
    depth = 0
    for i in range(open_idx, len(text)):
        if not mask[i]:
            continue
        if text[i] == '{':
            depth += 1
        elif text[i] == '}':
            depth -= 1
            if depth == 0:
                return i
    raise StageError('unbalanced braces after offset %d' % open_idx)


# ---------------------------------------------------------------------------
# T1

_T1_RE = re.compile(r'#\[\s*cfg\s*\(\s*kani\s*\)\s*\]\s*mod\s+proofs\s*\{')


def t1_drop_upstream_proofs(src_dir):
    path = os.path.join(src_dir, 'addr.rs')
    rec = {'transform': 'T1', 'file': 'src/addr.rs', 'applied': False, 'sites': 0}
    if not os.path.isfile(path):
        rec['note'] = 'file absent'
        return rec
    text = _read(path)
    mask = code_mask(text)
    for mt in _T1_RE.finditer(text):
        if not mask[mt.start()]:
            continue
        open_idx = mt.end() - 1
        close_idx = match_brace(text, mask, open_idx)
        first_line = text.count('\n', 0, mt.start()) + 1
        last_line = text.count('\n', 0, close_idx) + 1
        removed = text[mt.start():close_idx + 1]
        # keep the line count of everything before; replace by one comment line
        text = (text[:mt.start()]
                + '// [verif T1] upstream `#[cfg(kani)] mod proofs` removed (%d lines)\n'
                % (removed.count('\n') + 1)
                + text[close_idx + 1:])
        _write(path, text)
        rec.update(applied=True, sites=1, lines=[first_line, last_line])
        return rec
    rec['note'] = 'anchor `#[cfg(kani)] mod proofs {` not found; skipped'
    return rec


# ---------------------------------------------------------------------------
# T2

# `asm!(`, `core::arch::asm!(`, `::core::arch::asm!(`, `std::arch::asm!(`,
# `arch::asm!(`; not `global_asm!(`, not `hw_asm!(`.
_ASM_RE = re.compile(
    r'(?:(?<![A-Za-z0-9_:])(?:::)?(?:core|std)::arch::asm|(?<![A-Za-z0-9_:])arch::asm|(?<![A-Za-z0-9_:])asm)\s*!\s*\(')
_USE_LINE_RE = re.compile(r'^[ \t]*(?:pub(?:\([^)]*\))?\s+)?use\s+(?:::)?(?:core|std)::arch::asm\s*;[ \t]*\n?', re.M)
# `arch::asm` as one element of a brace group in a use declaration
_USE_ELEM_RE = re.compile(r'\barch::asm\s*,\s*|,\s*arch::asm\b(?=\s*[,}])')
_USE_DECL_RE = re.compile(r'^[ \t]*(?:pub(?:\([^)]*\))?\s+)?use\s[^;]*;', re.M | re.S)


def t2_rename_asm(src_dir):
    """Returns (records, total_sites)."""
    recs = []
    total = 0
    for root, dirs, files in os.walk(src_dir):
        dirs.sort()
        for fn in sorted(files):
            if not fn.endswith('.rs'):
                continue
            path = os.path.join(root, fn)
            rel = 'src/' + os.path.relpath(path, src_dir)
            if rel == 'src/verif_hw.rs':
                continue
            text = _read(path)
            mask = code_mask(text)
            sites = []
            out = []
            pos = 0
            for mt in _ASM_RE.finditer(text):
                if not mask[mt.start()] or not mask[mt.end() - 1]:
                    continue
                out.append(text[pos:mt.start()])
                out.append('crate::hw_asm!(')
                pos = mt.end()
                sites.append(text.count('\n', 0, mt.start()) + 1)
            if not sites:
                # still remove imports? no: a file without sites keeps its text
                continue
            out.append(text[pos:])
            text = ''.join(out)

            # imports
            imports = 0
            mask = code_mask(text)

            def _line_sub(mt2):
                nonlocal imports
                if not mask[mt2.start() + len(mt2.group(0)) - len(mt2.group(0).lstrip())]:
                    return mt2.group(0)
                imports += 1
                return '// [verif T2] ' + mt2.group(0).strip() + '\n'
            text = _USE_LINE_RE.sub(_line_sub, text)

            mask = code_mask(text)

            def _decl_sub(mt2):
                nonlocal imports
                decl = mt2.group(0)
                first = mt2.start() + len(decl) - len(decl.lstrip())
                if not mask[first] or 'arch::asm' not in decl:
                    return decl
                new, k = _USE_ELEM_RE.subn('', decl)
                if k:
                    imports += k
                    return new
                return decl
            text = _USE_DECL_RE.sub(_decl_sub, text)

            _write(path, text)
            total += len(sites)
            recs.append({'transform': 'T2', 'file': rel, 'sites': len(sites),
                         'lines': sites, 'imports_removed': imports})
    return recs, total


def t2_install_shim(dest, prelude):
    src_dir = os.path.join(dest, 'src')
    if not os.path.isfile(prelude):
        raise StageError('prelude not found: ' + prelude)
    shutil.copyfile(prelude, os.path.join(src_dir, 'verif_hw.rs'))
    lib = os.path.join(src_dir, 'lib.rs')
    text = _read(lib)
    if 'pub mod verif_hw;' in text:
        raise StageError('src/lib.rs already declares verif_hw')
    if not text.endswith('\n'):
        text += '\n'
    _write(lib, text + LIB_RS_TRAILER)
    return {'transform': 'T2', 'file': 'src/lib.rs', 'sites': 1,
            'note': 'appended `#[macro_use] pub mod verif_hw;`; installed src/verif_hw.rs from ' + prelude}


# ---------------------------------------------------------------------------
# T3

_DIRECTIVE_RE = re.compile(r'^//@\s*include-into\s+(\S+)\s*$', re.M)
_OBLIGATION_RE = re.compile(r'^\s*//@\s*obligation\s+(\S+)\s+(\S+)(.*)$')
_FN_RE = re.compile(r'^\s*(?:pub(?:\([^)]*\))?\s+)?(?:unsafe\s+)?fn\s+([A-Za-z_][A-Za-z0-9_]*)')


def parse_harness_file(path):
    """Directives of one harness file: include-into target, and the list of
    (harness fn name, [obligation dicts]) in file order."""
    text = _read(path)
    mt = _DIRECTIVE_RE.search(text)
    target = mt.group(1) if mt else None
    harnesses = []
    pending = []
    armed = False  # saw a #[kani::proof...] attribute since the last fn
    for line in text.split('\n'):
        mo = _OBLIGATION_RE.match(line)
        if mo:
            attrs = {k: (a or b) for k, a, b in
                     re.findall(r'(\w+)=(?:"([^"]*)"|(\S+))', mo.group(3))}
            pending.append({'property': mo.group(1), 'name': mo.group(2), **attrs})
            continue
        if re.search(r'#\[\s*kani::proof(_for_contract)?\b', line):
            armed = True
        mf = _FN_RE.match(line)
        if mf:
            if armed:
                harnesses.append({'harness': mf.group(1), 'obligations': pending})
                pending = []
            armed = False
    return {'include_into': target, 'harnesses': harnesses}


def t3_inject_harnesses(dest, harness_dir, copy=True):
    recs = []
    if not os.path.isdir(harness_dir):
        return recs
    hdest = os.path.join(dest, 'verif_harness')
    for fn in sorted(os.listdir(harness_dir)):
        if not fn.endswith('.rs'):
            continue
        hpath = os.path.join(harness_dir, fn)
        info = parse_harness_file(hpath)
        target = info['include_into']
        rec = {'transform': 'T3', 'harness_file': hpath, 'file': target, 'sites': 0,
               'harnesses': [h['harness'] for h in info['harnesses']],
               'obligations': {h['harness']: h['obligations'] for h in info['harnesses']}}
        if not target:
            rec['error'] = 'no `//@ include-into <path>` directive'
            recs.append(rec)
            continue
        tpath = os.path.normpath(os.path.join(dest, target))
        if not tpath.startswith(os.path.join(dest, 'src') + os.sep) or not os.path.isfile(tpath):
            rec['error'] = 'include-into target not found in the copy: ' + target
            recs.append(rec)
            continue
        if copy:
            os.makedirs(hdest, exist_ok=True)
            inc = os.path.join(hdest, fn)
            shutil.copyfile(hpath, inc)
        else:
            inc = os.path.abspath(hpath)
        text = _read(tpath)
        if not text.endswith('\n'):
            text += '\n'
        text += '\n// ---- appended by /verif/lib/stage.py (T3) ----\ninclude!("%s");\n' % inc
        _write(tpath, text)
        rec.update(sites=1, included_path=inc)
        recs.append(rec)
    return recs


# ---------------------------------------------------------------------------

def _read(path):
    with open(path, 'r', encoding='utf-8') as f:
        return f.read()


def _write(path, text):
    with open(path, 'w', encoding='utf-8') as f:
        f.write(text)


def _copy_tree(repo, dest):
    os.makedirs(dest, exist_ok=True)
    if shutil.which('rsync'):
        cmd = ['rsync', '-a', '-c', '--delete', '--exclude', '/target/', '--exclude', '/.git/',
               repo.rstrip('/') + '/', dest.rstrip('/') + '/']
        r = subprocess.run(cmd, stdout=subprocess.PIPE, stderr=subprocess.STDOUT, text=True)
        if r.returncode != 0:
            raise StageError('rsync failed: ' + r.stdout)
        return 'rsync'
    # fallback
    if os.path.isdir(dest):
        shutil.rmtree(dest)
    shutil.copytree(repo, dest, symlinks=True,
                    ignore=lambda d, names: [n for n in names
                                             if os.path.abspath(d) == os.path.abspath(repo)
                                             and n in ('target', '.git')])
    return 'copytree'


def stage(dest, repo=DEFAULT_REPO, harness_dir=DEFAULT_HARNESS_DIR, prelude=DEFAULT_PRELUDE,
          copy_harness=True):
    """Build the scratch copy. Returns a dict describing every transform."""
    dest = os.path.abspath(dest)
    repo = os.path.abspath(repo)
    for forbidden in (repo, VERIF, '/tmp'):
        if dest == forbidden or dest.startswith(forbidden.rstrip('/') + '/'):
            raise StageError('scratch copy must not live under %s: %s' % (forbidden, dest))
    if not os.path.isfile(os.path.join(repo, 'Cargo.toml')):
        raise StageError('no Cargo.toml in ' + repo)
    how = _copy_tree(repo, dest)
    src_dir = os.path.join(dest, 'src')
    transforms = []

    transforms.append(t1_drop_upstream_proofs(src_dir))

    recs, asm_sites = t2_rename_asm(src_dir)
    transforms.extend(recs)
    transforms.append(t2_install_shim(dest, prelude))

    t3 = t3_inject_harnesses(dest, harness_dir, copy=copy_harness)
    transforms.extend(t3)

    # cargo config / toolchain
    os.makedirs(os.path.join(dest, '.cargo'), exist_ok=True)
    _write(os.path.join(dest, '.cargo', 'config.toml'), '[net]\noffline = true\n')
    removed = []
    for name in ('rust-toolchain.toml', 'rust-toolchain'):
        p = os.path.join(dest, name)
        if os.path.exists(p):
            os.remove(p)
            removed.append(name)
    transforms.append({'transform': 'env', 'file': '.cargo/config.toml', 'sites': 1,
                       'note': '[net] offline = true; removed ' + (', '.join(removed) or 'nothing')})

    harnesses = {}
    obligations = {}
    for r in t3:
        if r.get('error'):
            continue
        for h in r.get('harnesses', []):
            harnesses[h] = r['harness_file']
            obligations[h] = r.get('obligations', {}).get(h, [])

    return {
        'dest': dest,
        'repo': repo,
        'copy_method': how,
        'asm_sites_replaced': asm_sites,
        'asm_sites_by_file': {r['file']: r['sites'] for r in recs},
        't1_applied': transforms[0]['applied'],
        'harness_files': [r['harness_file'] for r in t3 if not r.get('error')],
        'harness_errors': [r for r in t3 if r.get('error')],
        'harnesses': harnesses,
        'obligations': obligations,
        'cargo_lock_present': os.path.isfile(os.path.join(dest, 'Cargo.lock')),
        'features': ['instructions', 'abi_x86_interrupt'],
        'transforms': transforms,
    }


DEFAULT_TARGET_DIR = os.path.join(VERIF, '.cache', 'kani-target')


def prune_target(dest, target_dir=DEFAULT_TARGET_DIR):
    """Remove from a shared cargo target dir the build output of the crate
    staged at `dest` (cargo keys it by the package path, so every scratch
    copy leaves 10-100 MB behind). Dependencies stay cached. Returns the list
    of removed directories."""
    dest = os.path.abspath(dest).rstrip('/') + '/'
    needle = dest.encode()
    removed = []
    if not os.path.isdir(target_dir):
        return removed
    for root, dirs, files in os.walk(target_dir):
        # .../build/<package>/<hash>/out/*.d list the absolute source paths
        if os.path.basename(root) != 'out':
            continue
        dirs[:] = []
        hit = False
        for fn in files:
            if not fn.endswith('.d'):
                continue
            try:
                with open(os.path.join(root, fn), 'rb') as f:
                    if needle in f.read():
                        hit = True
                        break
            except OSError:
                pass
        if hit:
            victim = os.path.dirname(root)
            shutil.rmtree(victim, ignore_errors=True)
            removed.append(victim)
    return removed


def unstage(dest, target_dir=DEFAULT_TARGET_DIR):
    """Remove a scratch copy and what it left in the shared target dir."""
    dest = os.path.abspath(dest)
    removed = []
    if os.path.basename(dest).startswith('verif-'):
        if target_dir:
            removed = prune_target(dest, target_dir)
        if os.path.isdir(dest):
            shutil.rmtree(dest, ignore_errors=True)
    return removed


def main(argv):
    import argparse
    ap = argparse.ArgumentParser(description=__doc__.split('\n')[0])
    ap.add_argument('dest')
    ap.add_argument('--repo', default=DEFAULT_REPO)
    ap.add_argument('--harness-dir', default=DEFAULT_HARNESS_DIR)
    ap.add_argument('--prelude', default=DEFAULT_PRELUDE)
    ap.add_argument('--json', action='store_true', help='print the full transform record')
    a = ap.parse_args(argv)
    try:
        info = stage(a.dest, a.repo, a.harness_dir, a.prelude)
    except StageError as e:
        print('stage: ' + str(e), file=sys.stderr)
        return 2
    if a.json:
        json.dump(info, sys.stdout, indent=1)
        print()
    else:
        print('staged %s -> %s' % (info['repo'], info['dest']))
        print('T1 upstream proofs removed: %s' % info['t1_applied'])
        print('T2 asm sites replaced: %d in %d files' % (info['asm_sites_replaced'],
                                                        len(info['asm_sites_by_file'])))
        print('T3 harness files: %d, harnesses: %d' % (len(info['harness_files']),
                                                      len(info['harnesses'])))
        for e in info['harness_errors']:
            print('T3 ERROR %s: %s' % (e['harness_file'], e['error']))
    return 0


if __name__ == '__main__':
    sys.exit(main(sys.argv[1:]))
