#!/bin/bash
# usage: lib/mut.sh <PROP> <file> <sed-expr>   -- mutate a scratch copy, run the check, report
set -u
PROP=$1; FILE=$2; EXPR=$3
D=/var/tmp/verif-mut-$$
rm -rf $D; mkdir -p $D; rsync -a --exclude target --exclude .git /repo/ $D/
sed -i "$EXPR" $D/$FILE
if diff -q /repo/$FILE $D/$FILE >/dev/null; then echo "MUTATION DID NOT APPLY"; rm -rf $D; exit 9; fi
diff /repo/$FILE $D/$FILE | head -6
VERIF_REPO=$D ./check $PROP 2>&1 | grep -v "^WARNING conda" | tail -6
echo "exit=${PIPESTATUS[0]}"
rm -rf $D
