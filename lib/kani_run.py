#!/usr/bin/env python3
"""E1 runner: verify a list of Kani harnesses of a staged scratch copy.

    from kani_run import run_harnesses, playback
    res = run_harnesses('/var/tmp/verif-1234-e1', ['c16_cr0_write_preserves_unmodelled', ...])
    res['c16_cr0_write_preserves_unmodelled']['status']   # SUCCESS | FAILURE | UNDECIDED | TIMEOUT | ERROR

CLI:
    python3 lib/kani_run.py run <stage_dir> [name ...] [--jobs N] [--timeout S] [--json]
    python3 lib/kani_run.py playback <stage_dir> <name> [--json]

How it runs (measured, see lib/E1_NOTES.md): ONE `cargo kani` process with
all `--harness` filters, `-j N --output-format=terse --output-into-files
-Z unstable-options --export-json <file> --harness-timeout <S>s`.  Results are
read from the JSON export (one record per harness with every check); if the
process had to be killed, from the per-harness result files Kani writes as each
harness finishes; harnesses with neither are TIMEOUT.

Status rules (only SUCCESS and FAILURE are verdicts about the code):

  UNDECIDED  a cover property `VERIF-UNKNOWN-ASM ...` was SATISFIED (the
             harness executed an asm form the ISA table does not know), or the
             scratch copy does not compile and the compiler error is at a
             `hw_asm!` site, or Kani met a construct it does not support, or
             only unwinding assertions failed, or the vacuity guard
             `<harness>: reachable` was not SATISFIED
  FAILURE    at least one assertion/safety check failed (and none of the above)
  SUCCESS    Kani verified the harness and the reachable cover was SATISFIED
  TIMEOUT    no result within the per-harness time limit
  ERROR      the scratch copy does not compile for another reason, the harness
             does not exist, CBMC crashed, ...

python3 stdlib only.
"""

import fcntl
import json
import os
import re
import shutil
import signal
import subprocess
import sys
import time

VERIF = os.path.dirname(os.path.dirname(os.path.abspath(__file__)))
DEFAULT_TARGET_DIR = os.environ.get('VERIF_KANI_TARGET') or os.path.join(VERIF, '.cache', 'kani-target')
LOG_ROOT = os.path.join(VERIF, 'out', 'kani-logs')

KANI_FLAGS = ['-Z', 'function-contracts', '-Z', 'stubbing',
              '--no-default-features', '--features', 'instructions,abi_x86_interrupt']

UNKNOWN_ASM_MARK = 'VERIF-UNKNOWN-ASM'
REACHABLE_SUFFIX = ': reachable'

SUCCESS, FAILURE, UNDECIDED, TIMEOUT, ERROR = 'SUCCESS', 'FAILURE', 'UNDECIDED', 'TIMEOUT', 'ERROR'


# ---------------------------------------------------------------------------
# process handling

def _run_group(cmd, cwd, log_path, deadline_s, env=None):
    """Run cmd in its own process group with stdout+stderr to log_path.
    On deadline, kill the whole group (cargo, kani-driver, every cbmc).
    Returns (returncode or None if killed, seconds)."""
    t0 = time.time()
    e = dict(os.environ)
    e['CARGO_NET_OFFLINE'] = 'true'
    # scratch copies are thrown away: incremental state would only pile up
    e['CARGO_INCREMENTAL'] = '0'
    e.pop('RUSTUP_TOOLCHAIN', None)
    if env:
        e.update(env)
    with open(log_path, 'wb') as lf:
        p = subprocess.Popen(cmd, cwd=cwd, stdout=lf, stderr=subprocess.STDOUT,
                             stdin=subprocess.DEVNULL, env=e, start_new_session=True)
        killed = False
        try:
            p.wait(timeout=deadline_s)
        except subprocess.TimeoutExpired:
            killed = True
        finally:
            # Always sweep the group: kani-driver may leave cbmc behind.
            _kill_group(p.pid)
            try:
                p.wait(timeout=10)
            except subprocess.TimeoutExpired:
                pass
    return (None if killed else p.returncode), time.time() - t0


def _kill_group(pgid):
    for sig in (signal.SIGTERM, signal.SIGKILL):
        try:
            os.killpg(pgid, sig)
        except ProcessLookupError:
            return
        except PermissionError:
            return
        time.sleep(0.2)


class _DirLock:
    """Serialise runs that share a target dir (result_output_dir is keyed by
    harness name only)."""

    def __init__(self, target_dir):
        os.makedirs(target_dir, exist_ok=True)
        self.path = os.path.join(target_dir, '.verif-run.lock')
        self.f = None

    def __enter__(self):
        self.f = open(self.path, 'w')
        fcntl.flock(self.f, fcntl.LOCK_EX)
        return self

    def __exit__(self, *a):
        fcntl.flock(self.f, fcntl.LOCK_UN)
        self.f.close()


# ---------------------------------------------------------------------------
# harness name resolution

_DIRECTIVE_RE = re.compile(r'^//@\s*include-into\s+(\S+)\s*$', re.M)
_MOD_RE = re.compile(r'^\s*(?:pub(?:\([^)]*\))?\s+)?mod\s+([A-Za-z_][A-Za-z0-9_]*)\s*\{', re.M)
_FN_RE = re.compile(r'^\s*(?:pub(?:\([^)]*\))?\s+)?(?:unsafe\s+)?fn\s+([A-Za-z_][A-Za-z0-9_]*)')


def _module_path_of(rel):
    """src/registers/control.rs -> registers::control ; src/lib.rs -> ''"""
    p = rel
    if p.startswith('src/'):
        p = p[4:]
    if p.endswith('.rs'):
        p = p[:-3]
    parts = [x for x in p.split('/') if x]
    if parts and parts[-1] in ('mod', 'lib', 'main'):
        parts = parts[:-1]
    return '::'.join(parts)


def staged_harnesses(stage_dir):
    """Map short harness fn name -> {'pretty': full path, 'file': harness file copy}
    from the harness copies in <stage_dir>/verif_harness (as written by stage.py)."""
    out = {}
    hdir = os.path.join(stage_dir, 'verif_harness')
    if not os.path.isdir(hdir):
        return out
    for fn in sorted(os.listdir(hdir)):
        if not fn.endswith('.rs'):
            continue
        path = os.path.join(hdir, fn)
        with open(path, encoding='utf-8') as f:
            text = f.read()
        mt = _DIRECTIVE_RE.search(text)
        if not mt:
            continue
        base = _module_path_of(mt.group(1))
        # harnesses live in the (single, by convention) top-level mod of the file;
        # track the innermost `mod x {` seen at brace depth tracking by indentation-free scan
        mod_stack = []
        depth = 0
        armed = False
        for line in text.split('\n'):
            code = line.split('//')[0]
            mm = _MOD_RE.match(code)
            if mm:
                mod_stack.append((mm.group(1), depth))
            if re.search(r'#\[\s*kani::proof(_for_contract)?\b', code):
                armed = True
            mf = _FN_RE.match(code)
            if mf:
                if armed:
                    parts = [base] if base else []
                    parts += [m for m, _ in mod_stack]
                    parts.append(mf.group(1))
                    out[mf.group(1)] = {'pretty': '::'.join(parts), 'file': path}
                armed = False
            depth += code.count('{') - code.count('}')
            while mod_stack and depth <= mod_stack[-1][1]:
                mod_stack.pop()
    return out


# ---------------------------------------------------------------------------
# output parsing

_CHECK_HEAD_RE = re.compile(r'^Check (\d+): (.*)$')


def parse_regular_output(text):
    """Parse Kani's `regular` output of ONE harness (as found in the
    per-harness result files). Returns dict(checks=[...], verdict, seconds)."""
    checks = []
    cur = None
    verdict = None
    seconds = None
    for line in text.split('\n'):
        mh = _CHECK_HEAD_RE.match(line)
        if mh:
            cur = {'id': int(mh.group(1)), 'property': mh.group(2).strip(), 'status': None,
                   'description': '', 'location': ''}
            checks.append(cur)
            continue
        s = line.strip()
        if cur is not None and s.startswith('- Status:'):
            cur['status'] = s[len('- Status:'):].strip()
        elif cur is not None and s.startswith('- Description:'):
            cur['description'] = _unquote(s[len('- Description:'):].strip())
        elif cur is not None and s.startswith('- Location:'):
            cur['location'] = s[len('- Location:'):].strip()
        elif s.startswith('VERIFICATION:-'):
            verdict = s[len('VERIFICATION:-'):].strip()
            cur = None
        elif s.startswith('Verification Time:'):
            try:
                seconds = float(s.split(':', 1)[1].strip().rstrip('s'))
            except ValueError:
                pass
        elif s.startswith('SUMMARY:'):
            cur = None
    for c in checks:
        c['category'] = 'cover' if (c['status'] or '').upper() in (
            'SATISFIED', 'UNSATISFIABLE', 'UNREACHABLE') or '.cover.' in c['property'] else 'check'
    return {'checks': checks, 'verdict': verdict, 'seconds': seconds}


def _unquote(s):
    """Kani prints descriptions inside quotes; assert! messages carry their own
    literal quotes on top (`"\\"C16...\\""`)."""
    for _ in range(2):
        if len(s) >= 2 and s[0] == '"' and s[-1] == '"':
            s = s[1:-1]
        if len(s) >= 4 and s.startswith('\\"') and s.endswith('\\"'):
            s = s[2:-2]
    return s


def _norm_status(s):
    return (s or '').strip().upper()


def _checks_from_json(result):
    out = []
    for c in result.get('checks', []):
        loc = c.get('location') or {}
        if isinstance(loc, dict):
            locs = '%s:%s:%s' % (loc.get('file', ''), loc.get('line', ''), loc.get('column', ''))
            if c.get('function'):
                locs += ' in function ' + c['function']
        else:
            locs = str(loc)
        out.append({'id': c.get('id'), 'status': c.get('status'), 'category': c.get('category', ''),
                    'description': _unquote(c.get('description', '')), 'location': locs})
    return out


_UNSUPPORTED_RE = re.compile(r'is not currently supported by Kani|unsupported (feature|construct)|'
                             r'InlineAsm|inline assembly', re.I)
_UNWIND_RE = re.compile(r'unwinding assertion|recursion unwinding', re.I)


def classify(short_name, checks, kani_status, stage_dir=None, should_panic=False):
    """Decide the status of one harness from its checks.
    kani_status: 'SUCCESSFUL'/'FAILED'/'Success'/'Failure'/None.
    should_panic: the harness carries #[kani::should_panic]; Kani's verdict is
    then SUCCESSFUL although panic-class checks fail, and those are expected."""
    failed = []
    undetermined = 0
    unknown_asm = False
    reach = None
    other_covers_unsat = []
    for c in checks:
        st = _norm_status(c['status'])
        desc = c['description']
        is_cover = c.get('category') == 'cover' or st in ('SATISFIED', 'UNSATISFIABLE', 'UNREACHABLE')
        if is_cover:
            if desc.startswith(UNKNOWN_ASM_MARK) and st == 'SATISFIED':
                unknown_asm = True
            if desc == short_name + REACHABLE_SUFFIX:
                reach = (st == 'SATISFIED') if reach is None else (reach and st == 'SATISFIED')
            elif not desc.startswith(UNKNOWN_ASM_MARK) and st != 'SATISFIED':
                other_covers_unsat.append(desc)
            continue
        if st == 'FAILURE':
            failed.append({'description': desc, 'location': _rel_loc(c['location'], stage_dir)})
        elif st in ('UNDETERMINED', 'ERROR', 'SOLVER_ERROR'):
            undetermined += 1

    cover_ok = bool(reach)
    res = {'failed_checks': failed, 'cover_satisfied': cover_ok, 'unknown_asm': unknown_asm,
           'other_covers_unsatisfied': other_covers_unsat}
    ks = _norm_status(kani_status)
    ok = ks in ('SUCCESS', 'SUCCESSFUL') or ks.startswith('SUCCESSFUL')

    if unknown_asm:
        res.update(status=UNDECIDED, reason='unknown asm form: the harness executed an asm! site '
                   'that no hw_asm! arm knows (cover "%s ..." SATISFIED)' % UNKNOWN_ASM_MARK)
        return res
    genuine = [f for f in failed
               if not _UNSUPPORTED_RE.search(f['description']) and not _UNWIND_RE.search(f['description'])]
    if ok and should_panic and not [f for f in failed if f not in genuine]:
        # expected panics; Kani already checked that nothing else failed
        res['expected_panics'] = failed
        res['failed_checks'] = failed = genuine = []
    elif should_panic and not ok and not failed and not undetermined:
        res.update(status=FAILURE, reason='should_panic harness: no path panics')
        res['failed_checks'] = [{'description': 'should_panic: expected a panic, none is reachable',
                                 'location': ''}]
        return res
    if genuine:
        res.update(status=FAILURE, reason='%d check(s) failed' % len(genuine))
        return res
    if failed:
        kinds = []
        if any(_UNSUPPORTED_RE.search(f['description']) for f in failed):
            kinds.append('construct not supported by Kani reached')
        if any(_UNWIND_RE.search(f['description']) for f in failed):
            kinds.append('unwinding bound too small')
        res.update(status=UNDECIDED, reason='; '.join(kinds))
        return res
    if ok:
        if cover_ok:
            res.update(status=SUCCESS, reason='')
        elif reach is None:
            res.update(status=UNDECIDED, reason='vacuity guard: no cover "%s%s" in the harness'
                       % (short_name, REACHABLE_SUFFIX))
        else:
            res.update(status=UNDECIDED, reason='vacuity guard: cover "%s%s" not SATISFIED'
                       % (short_name, REACHABLE_SUFFIX))
        return res
    if undetermined:
        res.update(status=UNDECIDED, reason='%d check(s) undetermined' % undetermined)
        return res
    # Kani says failed, but no failed check is listed (e.g. should_panic
    # harness that did not panic, CBMC error)
    res.update(status=ERROR, reason='Kani reported %s without a failed check' % (kani_status or 'no verdict'))
    return res


def _rel_loc(loc, stage_dir):
    if stage_dir and loc:
        loc = loc.replace(stage_dir.rstrip('/') + '/', '')
    return loc


# ---------------------------------------------------------------------------
# compile errors

_ERR_BLOCK_RE = re.compile(r'^error(?:\[(E\d+)\])?: (.*)$')
_ERR_LOC_RE = re.compile(r'^\s*--> ([^:\s]+):(\d+):(\d+)')


def parse_compile_errors(log_text):
    """rustc `error` blocks of a cargo log: list of dict(code, message, file,
    line, text)."""
    blocks = []
    cur = None
    for line in log_text.split('\n'):
        m = _ERR_BLOCK_RE.match(line)
        if m:
            if m.group(2).startswith(('could not compile', 'aborting due to', 'Failed to execute cargo')):
                cur = None
                continue
            cur = {'code': m.group(1), 'message': m.group(2), 'file': None, 'line': None, 'text': [line]}
            blocks.append(cur)
            continue
        if line.startswith(('warning:', 'warning[')):
            cur = None
            continue
        if cur is not None:
            cur['text'].append(line)
            ml = _ERR_LOC_RE.match(line)
            if ml and cur['file'] is None:
                cur['file'] = ml.group(1)
                cur['line'] = int(ml.group(2))
    for b in blocks:
        b['text'] = '\n'.join(b['text']).rstrip()
    return blocks


def _near_hw_asm(stage_dir, rel_file, line, before=40, after=3):
    """True if a `hw_asm!` invocation sits within the enclosing few lines of
    file:line in the scratch copy (an asm site's out operand is declared a few
    lines above it and used a few lines below)."""
    if not rel_file or not line:
        return False
    path = rel_file if os.path.isabs(rel_file) else os.path.join(stage_dir, rel_file)
    try:
        with open(path, encoding='utf-8') as f:
            lines = f.read().split('\n')
    except OSError:
        return False
    lo = max(0, line - 1 - before)
    hi = min(len(lines), line + after)
    return any('hw_asm!' in l for l in lines[lo:hi])


def classify_compile_errors(stage_dir, blocks):
    """('UNDECIDED', reason) if every error is attributable to an asm site the
    ISA table does not know, else ('ERROR', reason)."""
    if not blocks:
        return ERROR, 'the scratch copy did not compile (no rustc error block found in the log)'
    asm_related = []
    other = []
    for b in blocks:
        txt = b['text']
        if 'hw_asm' in txt or (b['file'] or '').endswith('verif_hw.rs') and 'macro' in txt:
            asm_related.append(b)
        elif b['code'] in ('E0381', 'E0384', 'E0308', 'E0277') and _near_hw_asm(stage_dir, b['file'], b['line']):
            # E0381: out operand never assigned because no arm bound it
            asm_related.append(b)
        else:
            other.append(b)
    first = (other or asm_related)[0]
    msg = 'error%s: %s (%s:%s)' % ('[%s]' % first['code'] if first['code'] else '', first['message'],
                                   first['file'], first['line'])
    if asm_related and not other:
        return UNDECIDED, 'unknown asm form: the scratch copy does not compile at a hw_asm! site: ' + msg
    return ERROR, 'the scratch copy does not compile: ' + msg


# ---------------------------------------------------------------------------
# the runner

def _prune_logs(keep=int(os.environ.get('VERIF_KEEP_LOGS', '60'))):
    """Keep the newest `keep` run / playback directories under out/kani-logs (a C10 run leaves hundreds of MB)."""
    try:
        ds = sorted((os.path.join(LOG_ROOT, x) for x in os.listdir(LOG_ROOT)), key=os.path.getmtime)
        for d in ds[:-keep] if keep > 0 else []:
            if time.time() - os.path.getmtime(d) > 6 * 3600:      # never touch what a concurrent run may still read
                shutil.rmtree(d, ignore_errors=True)
    except OSError:
        pass


def _new_log_dir(tag):
    os.makedirs(LOG_ROOT, exist_ok=True)
    _prune_logs()
    base = os.path.join(LOG_ROOT, '%s-%d-%s' % (time.strftime('%Y%m%d-%H%M%S'), os.getpid(), tag))
    d = base
    k = 0
    while os.path.exists(d):
        k += 1
        d = '%s.%d' % (base, k)
    os.makedirs(d)
    return d


def _short(pretty):
    return pretty.rsplit('::', 1)[-1]


def run_harnesses(stage_dir, names, jobs=16, timeout_s=600, target_dir=DEFAULT_TARGET_DIR,
                  extra_args=(), log_dir=None, deadline_s=None):
    """Verify the harnesses `names` (short fn names; None/empty = every harness
    found in <stage_dir>/verif_harness). Returns {name: result}, result =
    dict(status, reason, failed_checks=[{description, location}], cover_satisfied,
    seconds, log, pretty_name). A key '_run' holds facts about the whole run."""
    stage_dir = os.path.abspath(stage_dir)
    known = staged_harnesses(stage_dir)
    if not names:
        names = sorted(known)
    names = list(dict.fromkeys(names))
    log_dir = log_dir or _new_log_dir('run')
    raw_log = os.path.join(log_dir, 'cargo-kani.log')
    json_path = os.path.join(log_dir, 'export.json')
    results = {}
    if not names:
        return {'_run': {'log': raw_log, 'note': 'no harness to run'}}

    exact = all(n in known for n in names)
    cmd = ['cargo', 'kani', '--target-dir', target_dir] + KANI_FLAGS
    for n in names:
        cmd += ['--harness', known[n]['pretty'] if exact else n]
    if exact:
        cmd.append('--exact')
    cmd += ['-j', str(max(1, int(jobs))), '--output-format=terse', '--output-into-files',
            '-Z', 'unstable-options', '--export-json', json_path,
            '--harness-timeout', '%ds' % int(timeout_s)]
    cmd += list(extra_args)

    waves = (len(names) + max(1, jobs) - 1) // max(1, jobs)
    # whole-run deadline: build allowance + every wave running into its timeout
    deadline = deadline_s if deadline_s else 300 + waves * (timeout_s + 15)

    with _DirLock(target_dir):
        rod = os.path.join(target_dir, 'result_output_dir')
        shutil.rmtree(rod, ignore_errors=True)
        rc, wall = _run_group(cmd, stage_dir, raw_log, deadline)
        # keep the per-harness files with the logs
        per_dir = os.path.join(log_dir, 'per-harness')
        if os.path.isdir(rod):
            shutil.rmtree(per_dir, ignore_errors=True)
            shutil.move(rod, per_dir)

    with open(raw_log, encoding='utf-8', errors='replace') as f:
        log_text = f.read()
    run_info = {'log': raw_log, 'log_dir': log_dir, 'returncode': rc, 'wall_seconds': round(wall, 2),
                'cmd': cmd, 'killed_at_deadline': rc is None, 'exact_names': exact}
    mb = re.search(r'Finished .* in ([0-9.]+)s', log_text)
    if mb:
        run_info['build_seconds'] = float(mb.group(1))

    # ---- did it compile?
    compiled = ('Finished `' in log_text) or ('Checking harness' in log_text) or os.path.isfile(json_path)
    if not compiled and rc is not None:
        blocks = parse_compile_errors(log_text)
        if blocks or 'could not compile' in log_text:
            status, reason = classify_compile_errors(stage_dir, blocks)
            run_info['compile_errors'] = [{'code': b['code'], 'message': b['message'], 'file': b['file'],
                                           'line': b['line']} for b in blocks]
            for n in names:
                results[n] = _mk(status, reason, [], False, 0.0, raw_log, known.get(n, {}).get('pretty'))
                results[n]['compiler_message'] = (blocks[0]['text'] if blocks else '')
            results['_run'] = run_info
            return results
        # e.g. "no harnesses matched", bad flag
        tail = '\n'.join(log_text.strip().split('\n')[-5:])
        for n in names:
            results[n] = _mk(ERROR, 'cargo kani exited %s before verification: %s' % (rc, tail), [], False,
                             0.0, raw_log, known.get(n, {}).get('pretty'))
        results['_run'] = run_info
        return results

    # ---- per-harness records
    by_short = {}
    if os.path.isfile(json_path):
        try:
            with open(json_path, encoding='utf-8') as f:
                exp = json.load(f)
            errs = {e.get('harness_id'): e for e in exp.get('error_details', [])}
            sp = set(h.get('pretty_name') for h in exp.get('harness_metadata', [])
                     if (h.get('attributes') or {}).get('should_panic'))
            for r in exp.get('verification_results', {}).get('results', []):
                hid = r.get('harness_id', '')
                by_short[_short(hid)] = {'pretty': hid, 'checks': _checks_from_json(r),
                                         'should_panic': hid in sp,
                                         'kani_status': r.get('status'),
                                         'seconds': (r.get('duration_ms') or 0) / 1000.0,
                                         'error': errs.get(hid), 'source': 'export-json'}
        except (ValueError, OSError) as e:
            run_info['export_json_error'] = str(e)
    per_dir = os.path.join(log_dir, 'per-harness')
    if os.path.isdir(per_dir):
        for fn in os.listdir(per_dir):
            sh = _short(fn)
            fpath = os.path.join(per_dir, fn)
            if sh in by_short:
                # the JSON export is authoritative; keep the file as the log
                by_short[sh]['file'] = fpath
                continue
            with open(fpath, encoding='utf-8', errors='replace') as f:
                ftext = f.read()
            parsed = parse_regular_output(ftext)
            by_short[sh] = {'pretty': fn, 'checks': parsed['checks'], 'kani_status': parsed['verdict'],
                            'seconds': parsed['seconds'],
                            'error': ({'exit_status': 'timeout'} if 'CBMC timed out' in ftext else
                                      {'exit_status': 'cbmc failed'} if 'CBMC failed' in ftext else None),
                            'should_panic': 'as expected' in (parsed['verdict'] or ''),
                            'source': 'per-harness file', 'file': fpath}

    timed_out = set(_short(x) for x in re.findall(r'Harness (\S+) timed out', log_text))
    timed_out |= set(_short(x) for x in re.findall(r'(\S+) timed out after', log_text))

    for n in names:
        rec = by_short.get(n)
        pretty = (rec or {}).get('pretty') or known.get(n, {}).get('pretty')
        hlog = (rec or {}).get('file') or raw_log
        if rec is None or (not rec['checks'] and _norm_status(rec['kani_status']) not in ('SUCCESS', 'SUCCESSFUL')):
            err = (rec or {}).get('error') or {}
            etxt = json.dumps(err) if err else ''
            if n in timed_out or 'timeout' in etxt.lower() or 'timed out' in etxt.lower():
                results[n] = _mk(TIMEOUT, 'no result within %ds (harness timeout)' % timeout_s, [], False,
                                 float(timeout_s), hlog, pretty)
            elif rc is None:
                results[n] = _mk(TIMEOUT, 'run killed at the overall deadline (%ds) before this harness '
                                 'finished' % deadline, [], False, None, hlog, pretty)
            elif rec is None and n not in known and ('no harnesses matched' in log_text
                                                     or not re.search(r'\b%s\b' % re.escape(n), log_text)):
                results[n] = _mk(ERROR, 'harness not found in the scratch copy', [], False, 0.0, hlog, pretty)
            elif rec is None:
                results[n] = _mk(ERROR, 'no result reported by Kani for this harness (exit %s)' % rc, [], False,
                                 None, hlog, pretty)
            else:
                results[n] = _mk(ERROR, 'Kani reported %s without checks: %s' % (rec['kani_status'], etxt),
                                 [], False, rec.get('seconds'), hlog, pretty)
            continue
        c = classify(n, rec['checks'], rec['kani_status'], stage_dir, rec.get('should_panic', False))
        out = _mk(c['status'], c['reason'], c['failed_checks'], c['cover_satisfied'], rec.get('seconds'),
                  hlog, pretty)
        out['source'] = rec['source']
        out['other_covers_unsatisfied'] = c['other_covers_unsatisfied']
        if c.get('expected_panics'):
            out['expected_panics'] = c['expected_panics']
        out['n_checks'] = len(rec['checks'])
        results[n] = out
    results['_run'] = run_info
    return results


def _mk(status, reason, failed, cover, seconds, log, pretty):
    return {'status': status, 'reason': reason, 'failed_checks': failed, 'cover_satisfied': cover,
            'seconds': seconds, 'log': log, 'pretty_name': pretty}


def summarize(results):
    counts = {}
    for k, v in results.items():
        if k == '_run':
            continue
        counts[v['status']] = counts.get(v['status'], 0) + 1
    return counts


# ---------------------------------------------------------------------------
# concrete playback

_PLAYBACK_START_RE = re.compile(r'^Concrete playback unit test for `([^`]+)`:\s*$')


def extract_playback_tests(log_text):
    """[(harness pretty name, test source text, test fn name, [[bytes]...],
    check kind, check description)] - Kani emits one test per failed check
    AND one per satisfied cover."""
    out = []
    lines = log_text.split('\n')
    i = 0
    while i < len(lines):
        m = _PLAYBACK_START_RE.match(lines[i].strip())
        if not m:
            i += 1
            continue
        # next ``` ... ```
        j = i + 1
        while j < len(lines) and not lines[j].strip().startswith('```'):
            j += 1
        k = j + 1
        body = []
        while k < len(lines) and not lines[k].strip().startswith('```'):
            body.append(lines[k])
            k += 1
        src = '\n'.join(body).strip('\n')
        mf = re.search(r'fn\s+(kani_concrete_playback_[A-Za-z0-9_]+)', src)
        vals = []
        for mv in re.finditer(r'^\s*vec!\[([0-9,\s]*)\],?\s*$', src, re.M):
            inner = mv.group(1).strip()
            vals.append([int(x) for x in inner.split(',') if x.strip()] if inner else [])
        mc = re.search(r'^/// Check for `([^`]*)`: (.*)$', src, re.M)
        kind = mc.group(1) if mc else ''
        desc = _unquote(mc.group(2).strip()) if mc else ''
        out.append((m.group(1), src, mf.group(1) if mf else None, vals, kind, desc))
        i = k + 1
    return out


def decode_values(byte_vectors):
    """Little-endian integer reading of each nondet value (Kani stores one
    vector per kani::any() primitive, in call order)."""
    out = []
    for v in byte_vectors:
        n = 0
        for i, b in enumerate(v):
            n |= (b & 0xff) << (8 * i)
        out.append({'bytes': v, 'width_bits': 8 * len(v), 'unsigned': n, 'hex': '0x%x' % n})
    return out


def label_values(stage_dir, name, values, known=None):
    """Name the decoded values where that is safe: if the harness calls
    `reset_symbolic()` before any other `kani::any`, the first values are the
    fields of `Machine::symbolic()` in the order written in src/verif_hw.rs."""
    known = known or staged_harnesses(stage_dir)
    try:
        with open(os.path.join(stage_dir, 'src', 'verif_hw.rs'), encoding='utf-8') as f:
            hw = f.read()
        body = hw[hw.index('pub fn symbolic() -> Machine'):]
        body = body[:body.index('\n    }\n')]
        fields = re.findall(r's\.(\w+) = kani::any\(\);', body)
        with open(known[name]['file'], encoding='utf-8') as f:
            htxt = f.read()
        m = re.search(r'fn\s+%s\s*\(\s*\)\s*\{' % re.escape(name), htxt)
        rest = htxt[m.end():]
        first_reset = rest.find('reset_symbolic()')
        first_any = rest.find('kani::any')
    except (OSError, ValueError, KeyError, AttributeError):
        return values
    if first_reset < 0 or (0 <= first_any < first_reset) or len(values) < len(fields):
        return values
    for i, v in enumerate(values):
        v['label'] = ('machine.' + fields[i]) if i < len(fields) else 'harness/any#%d' % (i - len(fields))
    return values


def playback(stage_dir, name, timeout_s=600, target_dir=DEFAULT_TARGET_DIR, run_native=True, log_dir=None):
    """Re-run one (failing) harness with concrete playback, extract the
    generated unit test and its byte vectors, and run the test natively with
    `cargo kani playback` inside the scratch copy.

    Returns dict(status, harness, test_name, test_source, values, native={ran,
    reproduced, panic_message, returncode, log}, log)."""
    stage_dir = os.path.abspath(stage_dir)
    known = staged_harnesses(stage_dir)
    log_dir = log_dir or _new_log_dir('playback')
    gen_log = os.path.join(log_dir, 'playback-generate.log')
    res = {'harness': name, 'status': ERROR, 'test_name': None, 'test_source': None, 'values': [],
           'native': {'ran': False}, 'log': gen_log}
    cmd = ['cargo', 'kani', '--target-dir', target_dir] + KANI_FLAGS
    if name in known:
        cmd += ['--harness', known[name]['pretty'], '--exact']
    else:
        cmd += ['--harness', name]
    cmd += ['-Z', 'concrete-playback', '--concrete-playback=print']
    with _DirLock(target_dir):
        rc, wall = _run_group(cmd, stage_dir, gen_log, timeout_s + 300)
    with open(gen_log, encoding='utf-8', errors='replace') as f:
        text = f.read()
    res['generate_seconds'] = round(wall, 2)
    if rc is None:
        res.update(status=TIMEOUT, reason='playback generation killed after %ds' % (timeout_s + 300))
        return res
    tests = [t for t in extract_playback_tests(text) if _short(t[0]) == name or t[0] == name]
    if not tests:
        ok = re.search(r'VERIFICATION:- SUCCESSFUL', text)
        res.update(status=(SUCCESS if ok else ERROR),
                   reason=('harness verifies; no counterexample to play back' if ok else
                           'no concrete playback test in the output'))
        return res
    res['tests'] = [{'test_name': t[2], 'check_kind': t[4], 'check': t[5]} for t in tests]
    failing = [t for t in tests if t[4] != 'cover']
    if not failing:
        ok = re.search(r'VERIFICATION:- SUCCESSFUL', text)
        res.update(status=(SUCCESS if ok else ERROR),
                   reason='only cover witnesses were generated; no failing check to play back')
        return res
    pretty, src, tname, vals, kind, desc = failing[0]
    res.update(status=FAILURE, test_name=tname, test_source=src,
               values=label_values(stage_dir, name, decode_values(vals), known),
               pretty_name=pretty, n_tests=len(tests), check=desc, check_kind=kind)
    mfail = re.findall(r'Failed Checks: (.*)', text)
    res['failed_checks'] = [_unquote(x.strip()) for x in mfail]

    if not run_native or not tname:
        return res
    hfile = known.get(name, {}).get('file')
    if not hfile:
        res['native'] = {'ran': False, 'why': 'harness file copy not found under <stage>/verif_harness'}
        return res
    # place the test next to the harness: inside the (last) module of the copy
    with open(hfile, encoding='utf-8') as f:
        htxt = f.read()
    if tname not in htxt:
        idx = htxt.rstrip().rfind('}')
        if idx < 0:
            res['native'] = {'ran': False, 'why': 'no closing brace in the harness file copy'}
            return res
        ind = '\n'.join('    ' + l if l.strip() else l for l in src.split('\n'))
        htxt = (htxt[:idx] + '\n    // ---- concrete playback test added by lib/kani_run.py ----\n'
                + ind + '\n' + htxt[idx:])
        with open(hfile, 'w', encoding='utf-8') as f:
            f.write(htxt)
    nat_log = os.path.join(log_dir, 'playback-native.log')
    cmd2 = ['cargo', 'kani', 'playback', '-Z', 'concrete-playback',
            '--no-default-features', '--features', 'instructions,abi_x86_interrupt', '--lib',
            '--', tname, '--nocapture', '--test-threads=1']
    with _DirLock(target_dir):
        # `cargo kani playback` has no --target-dir; cargo honours the environment
        rc2, wall2 = _run_group(cmd2, stage_dir, nat_log, timeout_s + 300,
                                env={'CARGO_TARGET_DIR': os.path.join(target_dir, 'playback')})
    with open(nat_log, encoding='utf-8', errors='replace') as f:
        ntext = f.read()
    native = {'ran': True, 'returncode': rc2, 'seconds': round(wall2, 2), 'log': nat_log, 'cmd': cmd2}
    mp = re.search(r"panicked at ([^\n]*):\n([^\n]*)", ntext)
    native['panic_message'] = mp.group(2).strip() if mp else None
    native['panic_location'] = mp.group(1).strip() if mp else None
    ran_test = re.search(r'test \S*%s \.\.\. (ok|FAILED)' % re.escape(tname), ntext) or \
        re.search(r'running 1 test', ntext)
    native['test_found'] = bool(ran_test)
    native['reproduced'] = bool(mp) and bool(re.search(r'test result: FAILED|\.\.\. FAILED', ntext))
    if not ran_test:
        blocks = parse_compile_errors(ntext)
        native['why'] = ('native build failed: ' + blocks[0]['message']) if blocks else \
            'test not run; see log'
    res['native'] = native
    return res


# ---------------------------------------------------------------------------

def main(argv):
    import argparse
    ap = argparse.ArgumentParser(description='Run Kani harnesses of a staged scratch copy')
    sub = ap.add_subparsers(dest='cmd', required=True)
    r = sub.add_parser('run')
    r.add_argument('stage_dir')
    r.add_argument('names', nargs='*')
    r.add_argument('--jobs', type=int, default=16)
    r.add_argument('--timeout', type=int, default=600)
    r.add_argument('--target-dir', default=DEFAULT_TARGET_DIR)
    r.add_argument('--json', action='store_true')
    p = sub.add_parser('playback')
    p.add_argument('stage_dir')
    p.add_argument('name')
    p.add_argument('--timeout', type=int, default=600)
    p.add_argument('--target-dir', default=DEFAULT_TARGET_DIR)
    p.add_argument('--no-native', action='store_true')
    p.add_argument('--json', action='store_true')
    a = ap.parse_args(argv)
    if a.cmd == 'run':
        res = run_harnesses(a.stage_dir, a.names, a.jobs, a.timeout, a.target_dir)
        if a.json:
            json.dump(res, sys.stdout, indent=1)
            print()
        else:
            for k in sorted(x for x in res if x != '_run'):
                v = res[k]
                print('%-9s %-55s %6s  %s' % (v['status'], k,
                                              ('%.2fs' % v['seconds']) if v['seconds'] is not None else '-',
                                              v['reason']))
                for fc in v['failed_checks']:
                    print('            failed: %s  [%s]' % (fc['description'], fc['location']))
            ri = res['_run']
            print('-- %s  wall %.1fs  build %ss  log %s' % (summarize(res), ri.get('wall_seconds', 0),
                                                            ri.get('build_seconds', '?'), ri.get('log')))
        bad = [k for k, v in res.items() if k != '_run' and v['status'] != SUCCESS]
        return 1 if bad else 0
    res = playback(a.stage_dir, a.name, a.timeout, a.target_dir, run_native=not a.no_native)
    if a.json:
        json.dump(res, sys.stdout, indent=1)
        print()
    else:
        print('status', res['status'], res.get('reason', ''))
        if res.get('test_source'):
            print(res['test_source'])
            for i, v in enumerate(res['values']):
                print('  value %d: %d bits = %s  %s' % (i, v['width_bits'], v['hex'], v.get('label', '')))
            print('native:', json.dumps(res['native'], indent=1))
    return 0


if __name__ == '__main__':
    sys.exit(main(sys.argv[1:]))
