#!/bin/bash
# usage: lib/seed_confirm.sh <PROP> <worktree> <m1|m2> <name>
# Confirms a candidate mutant in its scratch worktree (tests pass, demo fails with / passes without), runs ./check against
# a scratch copy with the patch applied, and stores it under seeded/<PROP>-<name>/.
set -u
PROP=$1; WT=$2; M=$3; NAME=$4
S=$WT/SEED/$M
OUT=/verif/seeded/$PROP-$NAME
mkdir -p $OUT
cd $WT && git checkout -q -- . && git clean -fdq -e SEED
demo_run() { mkdir -p tests; cp $S/demo.rs tests/demo.rs; cargo test --offline --test demo 2>&1 | grep -E "^test result|error(\[|:)" | head -3; rm -rf tests; }
echo "--- demo without mutant"; R0=$(demo_run); echo "$R0"
git apply $S/patch.diff || { echo "PATCH DOES NOT APPLY"; exit 1; }
echo "--- unit tests with mutant"; T1=$(cargo test --offline 2>&1 | grep "^test result" | head -2); echo "$T1"
echo "--- demo with mutant"; R1=$(demo_run); echo "$R1"
git checkout -q -- . && git clean -fdq -e SEED
D=/var/tmp/verif-seed-$$; rm -rf $D; mkdir -p $D; rsync -a --exclude target --exclude .git /repo/ $D/; (cd $D && git apply --unsafe-paths $S/patch.diff 2>/dev/null || patch -p1 -s < $S/patch.diff)
cd /verif; echo "--- ./check $PROP on mutated copy"; C=$(VERIF_REPO=$D ./check $PROP 2>&1 | grep -v "^WARNING conda" | tail -8); echo "$C"; rm -rf $D
cp $S/patch.diff $S/demo.rs $OUT/ 2>/dev/null
python3 - "$PROP" "$S/meta.json" "$OUT/meta.json" "$R0" "$T1" "$R1" "$C" <<'PY'
import json,sys
prop,src,dst,r0,t1,r1,c=sys.argv[1:8]
try: m=json.load(open(src))
except Exception: m={}
m['property']=prop
m['confirmed_by_maintainer']={'demo_without_mutant':r0,'unit_tests_with_mutant':t1,'demo_with_mutant':r1,'check_output':c,
  'detected': 'VIOLATION property=%s'%prop in c}
json.dump(m,open(dst,'w'),indent=1)
print('detected' if m['confirmed_by_maintainer']['detected'] else 'MISSED')
PY
