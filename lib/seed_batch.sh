#!/bin/bash
# usage: lib/seed_batch.sh <PROP> <worktree> <tag> [m1 m2 m3]  -- confirm every SEED/m* of a worktree as seeded/<PROP>-<tag>m<i>
PROP=$1; WT=$2; TAG=$3; shift 3
MS=${@:-$(ls $WT/SEED 2>/dev/null)}
for m in $MS; do
  [ -f $WT/SEED/$m/patch.diff ] || continue
  /verif/lib/seed_confirm.sh $PROP $WT $m ${TAG}${m} 2>&1 | grep -E "^C[0-9]+:|detected|MISSED|violated:|undecided:|PATCH" | sed "s/^/[$PROP $m] /"
done
