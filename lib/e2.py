#!/usr/bin/env python3
"""E2: weave /repo functions with their contracts and let Verus discharge them."""
import glob
import json
import os
import re
import subprocess
import sys
import time

sys.path.insert(0, os.path.dirname(os.path.abspath(__file__)))
import weave  # noqa: E402
from extract import ExtractError  # noqa: E402

VERIF = os.path.dirname(os.path.dirname(os.path.abspath(__file__)))
PRELUDE = os.path.join(VERIF, 'prelude', 'verus_prelude.rs')


def spec_files():
    order_file = os.path.join(VERIF, 'spec', 'ORDER')
    if os.path.exists(order_file):
        with open(order_file) as f:
            return [os.path.join(VERIF, 'spec', l.strip()) for l in f if l.strip() and not l.startswith('#')]
    return sorted(glob.glob(os.path.join(VERIF, 'spec', '*.spec.rs')))


def run_verus(path, rlimit=None, threads=8, extra=()):
    cmd = ['verus', path, '--output-json', '--time', '--error-format=json', '--num-threads', str(threads)]
    if '--multiple-errors' not in extra:
        cmd += ['--multiple-errors', '4']
    if rlimit:
        cmd += ['--rlimit', str(rlimit)]
    cmd += list(extra)
    t0 = time.time()
    p = subprocess.run(cmd, stdout=subprocess.PIPE, stderr=subprocess.PIPE, text=True, cwd=os.path.dirname(path))
    dt = time.time() - t0
    summary = None
    try:
        summary = json.loads(p.stdout)
    except Exception:
        pass
    diags = []
    for line in p.stderr.split('\n'):
        line = line.strip()
        if line.startswith('{'):
            try:
                d = json.loads(line)
                if d.get('$message_type') == 'diagnostic' or 'message' in d:
                    diags.append(d)
            except Exception:
                pass
    return dict(cmd=' '.join(cmd), rc=p.returncode, seconds=dt, summary=summary, diags=diags, stderr=p.stderr, stdout=p.stdout)


VERIF_FAIL_PAT = re.compile(r'postcondition not satisfied|precondition not satisfied|assertion failed|possible arithmetic underflow/overflow|'
                            r'bitvector assertion not satisfied|invariant not satisfied|possible division by zero|possible bit shift underflow/overflow|'
                            r'Resource limit|rlimit|decreases not satisfied|could not prove termination|recommendation not met|'
                            r'possible overflow|cannot show|unreachable|failed')


def classify(res, lmap, funcs):
    """Attribute diagnostics to woven items. Returns dict(status, per_fn, lemma_failures, compile_errors)."""
    s = res['summary']
    out = dict(status='ok', per_fn={}, support_failures=[], compile_errors=[], verified=0, errors=0, smt_ms=0)
    errs = [d for d in res['diags'] if d.get('level') == 'error' and not d.get('message', '').startswith('aborting due to')]
    def _culprits():
        idxs = []
        for d in errs:
            for sp in (d.get('spans') or []):
                if not os.path.basename(sp.get('file_name', '')).startswith('x86_64_'):
                    continue
                ln = sp.get('line_start', 0)
                if 1 <= ln <= len(lmap):
                    o = lmap[ln - 1]
                    if len(o) > 3 and o[3] is not None and o[3] not in idxs:
                        idxs.append(o[3])
        return idxs
    if s is None or 'verification-results' not in s:
        out['status'] = 'undecided'
        out['compile_errors'] = [d.get('rendered') or d.get('message') for d in errs] or [res['stderr'][-2000:]]
        out['compile_error_fns'] = _culprits()
        return out
    vr = s['verification-results']
    out['verified'] = vr.get('verified', 0)
    out['errors'] = vr.get('errors', 0)
    try:
        out['smt_ms'] = s['times-ms']['smt']['total']
        out['verify_ms'] = s['times-ms']['total-verify']
    except Exception:
        pass
    if vr.get('encountered-vir-error') or (not vr.get('success') and vr.get('errors', 0) == 0):
        out['status'] = 'undecided'
        out['compile_errors'] = [d.get('rendered') or d.get('message') for d in errs] or [res['stderr'][-2000:]]
        out['compile_error_fns'] = _culprits()
        return out
    for d in errs:
        spans = [sp for sp in (d.get('spans') or []) if os.path.basename(sp.get('file_name', '')).startswith('x86_64_')]
        prim = [sp for sp in spans if sp.get('is_primary')] or spans
        fn_idx = None
        where = None
        # the function at fault is the one containing the PRIMARY span (e.g. the call site of a failed
        # precondition), not the one whose contract text is quoted in a secondary label
        for sp in (prim + [x for x in spans if x not in prim]):
            ln = sp.get('line_start', 0)
            if 1 <= ln <= len(lmap):
                o = lmap[ln - 1]
                if len(o) > 3 and o[3] is not None:
                    fn_idx = o[3]
                    break
        for sp in prim:
            ln = sp.get('line_start', 0)
            if 1 <= ln <= len(lmap):
                where = lmap[ln - 1]
                break
        msg = d.get('message', '')
        rl = 'Resource limit' in msg or 'rlimit' in msg
        rec = dict(message=msg, where=where, rendered=d.get('rendered', ''), rlimit=rl)
        if fn_idx is not None:
            out['per_fn'].setdefault(fn_idx, []).append(rec)
        else:
            out['support_failures'].append(rec)
    return out


def run(repo='/repo', outdir=None, rlimit=None, modes=('A', 'B')):
    """Weave and verify. Returns a result dict; never raises for repo-side problems."""
    outdir = outdir or os.path.join(VERIF, 'out', 'e2-%d' % os.getpid())
    os.makedirs(outdir, exist_ok=True)
    t0 = time.time()
    result = dict(outdir=outdir, status='ok', reason='', modes={}, seconds=0.0)
    degraded = {}
    for attempt in range(4):
        r2 = _run_once(repo, outdir, rlimit, modes, degraded, result)
        if r2 is None:
            break           # decided (or undecided for a reason that degrading cannot cure)
        # Verus rejected a woven file at spans inside these functions: weave them signature + contract only
        # and verify everything else
        new = {k: v for k, v in r2.items() if k not in degraded}
        if not new:
            break
        degraded.update(new)
        result.update(status='ok', reason='', modes={})
    result['degraded'] = {'%s | %s | %s' % k: v for k, v in degraded.items()}
    result['seconds'] = time.time() - t0
    return result


def _run_once(repo, outdir, rlimit, modes, degraded, result):
    """One weave + verify pass. Fills `result`. Returns None when done, or {function key: reason} for functions
    at which Verus rejected a file (candidates for degrading)."""
    t0 = time.time()
    try:
        w = weave.weave_all(repo, spec_files(), PRELUDE, outdir, modes, degraded)
    except (ExtractError, weave.SpecError) as e:
        result['status'] = 'undecided'
        result['reason'] = 'lost anchor / unsupported shape: %s' % e
        return None
    procs = {}
    culprits = {}
    # run both modes concurrently
    import concurrent.futures
    with concurrent.futures.ThreadPoolExecutor(max_workers=len(modes)) as ex:
        futs = {m: ex.submit(run_verus, w[m]['path'], rlimit, 8,
                             (['--verify-root', '--verify-function', '*vacuity_probe__*', '--multiple-errors', '0'] if m == 'P' else []))
                for m in modes}
        for m, f in futs.items():
            procs[m] = f.result()
    for m in modes:
        res = procs[m]
        cl = classify(res, w[m]['lmap'], w[m]['funcs'])
        if cl['status'] == 'ok' and any(r['rlimit'] for rs in cl['per_fn'].values() for r in rs) and not rlimit:
            # retry once with a doubled resource limit (DESIGN 6, step 2)
            res = run_verus(w[m]['path'], 20)
            cl = classify(res, w[m]['lmap'], w[m]['funcs'])
            cl['retried_rlimit'] = True
        with open(os.path.join(outdir, 'verus_%s.stderr' % m), 'w') as f:
            f.write(res['stderr'])
        with open(os.path.join(outdir, 'verus_%s.stdout' % m), 'w') as f:
            f.write(res['stdout'])
        result['modes'][m] = dict(cmd=res['cmd'], seconds=res['seconds'], funcs=w[m]['funcs'], cl=cl, path=w[m]['path'])
        if cl['status'] != 'ok':
            result['status'] = 'undecided'
            result['reason'] = 'Verus rejected the woven file (mode %s): %s' % (m, (cl['compile_errors'] or ['?'])[0][:600])
            for fi in cl.get('compile_error_fns', []):
                f = w[m]['funcs'][fi]
                if f.get('kind') == 'fn' and not f.get('degraded'):
                    key = (f['file'], weave.norm(f.get('orig_header') or f.get('header') or ''), f.get('orig_name') or f['name'])
                    culprits[key] = 'Verus rejected the woven text of this function: %s' % (cl['compile_errors'] or ['?'])[0][:300]
    if result['status'] != 'ok' and culprits:
        return culprits
    return None


if __name__ == '__main__':
    r = run(sys.argv[1] if len(sys.argv) > 1 else '/repo')
    print(r['status'], r['reason'][:300])
    for m, mr in r['modes'].items():
        cl = mr['cl']
        print('mode', m, 'verified', cl['verified'], 'errors', cl['errors'], '%.1fs' % mr['seconds'])
        for idx, recs in cl['per_fn'].items():
            f = mr['funcs'][idx]
            for rec in recs:
                print('   FAIL', f.get('header'), f['name'], '::', rec['message'], rec['where'])
        for rec in cl['support_failures']:
            print('   SUPPORT-FAIL', rec['message'], rec['where'])
        for e in cl['compile_errors'][:8]:
            print('   COMPILE', ' | '.join(e.split('\n')[:4])[:400])
