#!/usr/bin/env python3
"""Quick-tier selection for the mapper step harnesses.

usage: lib/promote.py <times.json> [--max-seconds S] [--apply]

For every harness FAMILY (operation x page size x shape; the members differ only in the index tuple _lo/_hi/_mid/_up)
of harness/c01_*step*.rs that has no member in the quick tier, the cheapest member (by the measured times, as written by
lib/harness_times.py from a thorough run) is promoted - ` tier=thorough` is removed from its directive lines - if it
takes less than S seconds (default 60). Reason: the mutation campaign (seeded/mutation-campaign/report.md) found that
every surviving mapper mutant had a deciding obligation that existed in the thorough tier only."""
import json, re, glob, sys, os, collections
V = os.path.dirname(os.path.dirname(os.path.abspath(__file__)))
args = sys.argv[1:]
times = json.load(open(args[0]))
maxs = float(args[args.index('--max-seconds') + 1]) if '--max-seconds' in args else 60.0
apply = '--apply' in args
files = sorted(glob.glob(os.path.join(V, 'harness', 'c01_*step*.rs')))
quick, where = set(), {}
for f in files:
    cur = []
    for l in open(f):
        s = l.strip()
        if s.startswith('//@ obligation'):
            cur.append(s)
        m = re.match(r'\s*(?:pub )?fn (c\d\d_\w+)\(', l)
        if m and cur:
            where[m.group(1)] = f
            if any('tier=thorough' not in c for c in cur):
                quick.add(m.group(1))
            cur = []
fam = collections.defaultdict(list)
for n in where:
    fam[re.sub(r'_(lo|hi|mid|up)$', '', n)].append(n)
pick = []
for f, ns in sorted(fam.items()):
    if any(n in quick for n in ns):
        continue
    timed = sorted((times[n], n) for n in ns if n in times)
    if timed and timed[0][0] < maxs:
        pick.append(timed[0])
print('families %d, already in the quick tier %d, promoted %d (%.0f CPU s), left thorough-only %d' % (
    len(fam), sum(1 for ns in fam.values() if any(n in quick for n in ns)), len(pick), sum(v for v, _ in pick),
    len(fam) - sum(1 for ns in fam.values() if any(n in quick for n in ns)) - len(pick)))
if apply:
    chosen = set(n for _, n in pick)
    for f in files:
        lines = open(f).read().split('\n')
        # directive block = consecutive //@ obligation lines (+ attributes) before the fn line
        out, block = [], []
        for l in lines:
            if l.strip().startswith('//@ obligation'):
                block.append(len(out))
            m = re.match(r'\s*(?:pub )?fn (c\d\d_\w+)\(', l)
            if m:
                if m.group(1) in chosen:
                    for i in block:
                        out[i] = out[i].replace(' tier=thorough', '')
                block = []
            out.append(l)
        open(f, 'w').write('\n'.join(out))
    print('applied to', len(files), 'files')
