#!/usr/bin/env python3
"""Per-harness verification times from a parallel cargo-kani log (out/kani-logs/<run>/cargo-kani.log)."""
import re, sys, json
def parse(path):
    cur, blk, times = {}, None, {}
    for l in open(path, errors='ignore'):
        m = re.match(r'Thread (\d+): Checking harness (\S+?)\.\.\.', l)
        if m:
            cur[m.group(1)] = m.group(2).split('::')[-1]
            continue
        m = re.match(r'Thread (\d+):\s*$', l)
        if m:
            blk = m.group(1)
            continue
        m = re.match(r'Verification Time: ([\d.]+)s', l)
        if m and blk is not None and blk in cur:
            times[cur[blk]] = float(m.group(1))
    return times
if __name__ == '__main__':
    t = {}
    for p in sys.argv[1:]:
        t.update(parse(p))
    json.dump(t, sys.stdout, indent=0)
