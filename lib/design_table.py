#!/usr/bin/env python3
"""Prints the per-property table of DESIGN.md section 5 from evidence/*.json (run after a full quick pass)."""
import json, os
V = os.path.dirname(os.path.dirname(os.path.abspath(__file__)))
print('| property | level | obligations counted (quick tier, unchanged tree) | by engine | bounded (auxiliary or stand-in) | wall |')
print('|---|---|---|---|---|---|')
for i in range(1, 21):
    p = 'C%02d' % i
    d = json.load(open(os.path.join(V, 'evidence', p + '.json')))
    c = d['coverage']
    be = c.get('obligations_by_engine', {})
    print('| %s | %s | %s / %s discharged | %s | %s | %s s |' % (
        p, d['level'], c.get('discharged'), c.get('obligations'),
        ', '.join('%s %s' % (k, v) for k, v in sorted(be.items())),
        len(c.get('bounded_obligations', {}) or {}), int(d.get('wall_s', 0))))
