#!/usr/bin/env python3
"""Cut items verbatim out of Rust source files by brace matching.

Only a lexer is used (comments, strings, char literals and lifetimes are
recognised so that braces inside them do not count). Nothing is parsed beyond
that; items are located by `impl` header text and item name.
"""
import hashlib
import re


class ExtractError(Exception):
    """An item named by a spec file was not found (lost anchor)."""


def code_mask(src):
    """Return a bytearray m with m[i]==1 where src[i] is code (not comment/string/char)."""
    n = len(src)
    m = bytearray(b"\x01") * n
    i = 0
    while i < n:
        c = src[i]
        if c == '/' and i + 1 < n and src[i + 1] == '/':
            j = src.find('\n', i)
            if j < 0:
                j = n
            for k in range(i, j):
                m[k] = 0
            i = j
        elif c == '/' and i + 1 < n and src[i + 1] == '*':
            depth = 1
            j = i + 2
            while j < n and depth > 0:
                if src.startswith('/*', j):
                    depth += 1
                    j += 2
                elif src.startswith('*/', j):
                    depth -= 1
                    j += 2
                else:
                    j += 1
            for k in range(i, j):
                m[k] = 0
            i = j
        elif c == '"' or (c in 'rb' and re.match(r'(?:b?r#*"|b")', src[i:i + 12]) and not (i > 0 and (src[i - 1].isalnum() or src[i - 1] == '_'))):
            # string literal: plain, byte, raw
            mm = re.match(r'(b?)(r?)(#*)"', src[i:i + 40])
            if not mm:
                i += 1
                continue
            raw = mm.group(2) == 'r'
            hashes = mm.group(3)
            j = i + mm.end()
            if raw:
                end = '"' + hashes
                k = src.find(end, j)
                k = n if k < 0 else k + len(end)
            else:
                k = j
                while k < n and src[k] != '"':
                    if src[k] == '\\':
                        k += 1
                    k += 1
                k += 1
            # keep the delimiters as code-free too
            for t in range(i, min(k, n)):
                m[t] = 0
            i = k
        elif c == "'":
            # char literal or lifetime
            mm = re.match(r"'(?:\\(?:x[0-9a-fA-F]{2}|u\{[0-9a-fA-F_]+\}|.)|[^\\'])'", src[i:i + 14])
            if mm:
                for t in range(i, i + mm.end()):
                    m[t] = 0
                i += mm.end()
            else:
                i += 1  # lifetime
        else:
            i += 1
    return m


def match_close(src, mask, open_pos):
    """Position of the bracket matching the one at open_pos (code-level)."""
    o = src[open_pos]
    c = {'{': '}', '(': ')', '[': ']'}[o]
    depth = 0
    i = open_pos
    n = len(src)
    while i < n:
        if mask[i]:
            if src[i] == o:
                depth += 1
            elif src[i] == c:
                depth -= 1
                if depth == 0:
                    return i
        i += 1
    raise ExtractError("unbalanced %s at offset %d" % (o, open_pos))


def norm(s):
    return re.sub(r'\s+', ' ', s).strip()


def strip_noncode(src, mask):
    return ''.join(ch if mask[i] else ' ' for i, ch in enumerate(src))


class Source:
    def __init__(self, path, relpath=None):
        self.path = path
        self.rel = relpath or path
        with open(path, encoding='utf-8') as f:
            self.text = f.read()
        self.mask = code_mask(self.text)
        self.code = strip_noncode(self.text, self.mask)  # same length, non-code blanked
        self._line_starts = [0]
        for mm in re.finditer('\n', self.text):
            self._line_starts.append(mm.end())

    def line_of(self, pos):
        import bisect
        return bisect.bisect_right(self._line_starts, pos)

    # ------------------------------------------------------------------
    def impl_blocks(self):
        """Yield (header_normalised, body_open, body_close, cfg_attrs) for every impl/trait block."""
        out = []
        for mm in re.finditer(r'(?m)^([ \t]*)(?:unsafe\s+)?(impl\b|pub\s+trait\b|trait\b)', self.code):
            start = mm.start() + len(mm.group(1))
            # header runs to first '{' at code level
            ob = self.code.find('{', mm.end())
            semi = self.code.find(';', mm.end())
            if ob < 0 or (0 <= semi < ob):
                continue
            header = norm(self.code[start:ob])
            cb = match_close(self.text, self.mask, ob)
            out.append((header, start, ob, cb, self.attrs_before(start)))
        return out

    def attrs_before(self, pos):
        """Collect #[...] attribute texts directly preceding pos (skipping doc comments/blank)."""
        attrs = []
        i = pos
        text = self.text
        while True:
            # skip whitespace backwards
            j = i
            while j > 0 and text[j - 1] in ' \t\r\n':
                j -= 1
            if j == 0:
                break
            # line comment directly before?
            ls = text.rfind('\n', 0, j) + 1
            line = text[ls:j]
            if line.lstrip().startswith('//'):
                i = ls
                continue
            if text[j - 1] == ']':
                # find matching '[' backwards at code level
                depth = 0
                k = j - 1
                while k >= 0:
                    if self.mask[k]:
                        if text[k] == ']':
                            depth += 1
                        elif text[k] == '[':
                            depth -= 1
                            if depth == 0:
                                break
                    k -= 1
                if k > 0 and text[k - 1] == '#':
                    attrs.append(text[k - 1:j])
                    i = k - 1
                    continue
                if k > 1 and text[k - 2:k] == '#!':
                    break
            break
        attrs.reverse()
        return attrs

    # ------------------------------------------------------------------
    def find_fn(self, impl_header, name):
        """Return dict(start,end,text,line_first,line_last,attrs,sha256,impl_span) for fn `name`."""
        if impl_header:
            want = norm(impl_header)
            cands = [b for b in self.impl_blocks() if b[0] == want]
            if not cands:
                raise ExtractError("%s: no block with header `%s`" % (self.rel, want))
        else:
            cands = [("", 0, -1, len(self.text), [])]
        for (_h, hstart, ob, cb, battrs) in cands:
            lo = ob + 1
            hi = cb
            for mm in re.finditer(r'\bfn\s+%s\b' % re.escape(name), self.code[lo:hi]):
                fpos = lo + mm.start()
                # must be at depth 1 relative to block (or depth 0 for top level)
                if self._depth(lo, fpos) != 0:
                    continue
                # walk back over qualifiers on the same item
                start = fpos
                while True:
                    mq = re.search(r'(pub(?:\s*\([^)]*\))?|const|unsafe|extern\s*(?:"[^"]*")?|async|default)\s*$', self.text[lo:start])
                    if not mq:
                        break
                    start = lo + mq.start()
                # body
                ob2 = self._find_body_open(fpos, hi)
                if ob2 is None:
                    continue  # declaration without body
                cb2 = match_close(self.text, self.mask, ob2)
                txt = self.text[start:cb2 + 1]
                return dict(start=start, end=cb2 + 1, text=txt, body_open=ob2 - start,
                            line_first=self.line_of(start), line_last=self.line_of(cb2),
                            attrs=self.attrs_before(start), impl_attrs=battrs,
                            impl_span=(hstart, ob, cb),
                            sha256=hashlib.sha256(txt.encode()).hexdigest())
        raise ExtractError("%s: fn `%s` not found in `%s`" % (self.rel, name, impl_header or '<top level>'))

    def _depth(self, lo, pos):
        d = 0
        seg = self.code[lo:pos]
        for ch in seg:
            if ch == '{':
                d += 1
            elif ch == '}':
                d -= 1
        return d

    def _find_body_open(self, fpos, hi):
        """First '{' after the signature at bracket depth 0; None if ';' comes first."""
        d = 0
        i = fpos
        while i < hi:
            ch = self.code[i]
            if ch in '([':
                d += 1
            elif ch in ')]':
                d -= 1
            elif ch == '<':
                pass
            elif d == 0 and ch == '{':
                return i
            elif d == 0 and ch == ';':
                return None
            i += 1
        return None

    # ------------------------------------------------------------------
    def impl_assoc(self, impl_header):
        """Associated `type X = Y;` and `const X: T = e;` items of an impl block (verbatim)."""
        want = norm(impl_header)
        for (h, hstart, ob, cb, _a) in self.impl_blocks():
            if h == want:
                items = []
                for mm in re.finditer(r'(?:pub\s+)?(?:type|const)\s+\w+[^;{}]*;', self.code[ob + 1:cb]):
                    if self._depth(ob + 1, ob + 1 + mm.start()) == 0:
                        s = ob + 1 + mm.start()
                        items.append(self.text[s:ob + 1 + mm.end()])
                return items
        raise ExtractError("%s: no block with header `%s`" % (self.rel, want))

    def find_item(self, kind, name):
        """Top-level (or nested-module) struct/enum/const/static/type/trait/union item."""
        pat = r'(?m)^[ \t]*((?:pub(?:\s*\([^)]*\))?\s+)?%s\s+%s\b)' % (kind, re.escape(name))
        for mm in re.finditer(pat, self.code):
            start = mm.start(1)
            # ends at ';' or matching '}' whichever first at depth 0
            i = mm.end()
            d = 0
            n = len(self.code)
            while i < n:
                ch = self.code[i]
                if ch in '([':
                    d += 1
                elif ch in ')]':
                    d -= 1
                elif d == 0 and ch == ';':
                    end = i + 1
                    break
                elif d == 0 and ch == '{':
                    end = match_close(self.text, self.mask, i) + 1
                    # tuple structs / consts may continue with ';'
                    break
                i += 1
            else:
                continue
            txt = self.text[start:end]
            return dict(start=start, end=end, text=txt, line_first=self.line_of(start),
                        line_last=self.line_of(end - 1), attrs=self.attrs_before(start),
                        sha256=hashlib.sha256(txt.encode()).hexdigest())
        raise ExtractError("%s: %s `%s` not found" % (self.rel, kind, name))

    def find_macro_block(self, macro, containing):
        """Body `{...}` of a `macro! { ... }` invocation whose text contains `containing`."""
        for mm in re.finditer(r'\b%s!\s*\{' % re.escape(macro), self.code):
            ob = mm.end() - 1
            cb = match_close(self.text, self.mask, ob)
            if containing in self.text[ob:cb]:
                return dict(start=ob + 1, end=cb, text=self.text[ob + 1:cb],
                            line_first=self.line_of(ob), line_last=self.line_of(cb))
        raise ExtractError("%s: no %s! block containing `%s`" % (self.rel, macro, containing))


def strip_comments(text):
    """Remove comments (doc and ordinary) from a snippet, keep strings."""
    m = code_mask(text)
    out = []
    i = 0
    n = len(text)
    while i < n:
        if not m[i] and (text.startswith('//', i) or text.startswith('/*', i)):
            # skip the whole comment run
            if text.startswith('//', i):
                j = text.find('\n', i)
                j = n if j < 0 else j
            else:
                j = i
                while j < n and not m[j]:
                    j += 1
            i = j
        else:
            out.append(text[i])
            i += 1
    return ''.join(out)


if __name__ == '__main__':
    import sys
    s = Source(sys.argv[1])
    if len(sys.argv) == 4:
        r = s.find_fn(sys.argv[2], sys.argv[3])
    else:
        r = s.find_item(sys.argv[2], sys.argv[3]) if len(sys.argv) > 3 else None
    print(r['text'])
    print('// lines %d-%d sha256 %s' % (r['line_first'], r['line_last'], r['sha256'][:16]))
