#!/bin/bash
# usage: lib/refactor_test.sh <patch dir> <PROP>...   -- applies a harmless refactoring to a scratch copy; no check may report a VIOLATION
set -u
R=$1; shift
D=/var/tmp/verif-refac-$$; rm -rf $D; mkdir -p $D; rsync -a --exclude target --exclude .git /repo/ $D/
(cd $D && patch -p1 -s < $R/patch.diff) || { echo "PATCH FAILED $R"; rm -rf $D; exit 9; }
export VERIF_DEV_KANI_CACHE=/var/tmp/verif-devcache-$$   # harness results shared between the properties of THIS copy
for P in "$@"; do
  OUT=$(VERIF_REPO=$D /verif/check $P 2>&1 | grep -v "^WARNING conda"); RC=$?
  LINE=$(echo "$OUT" | grep -E "^$P:" | tail -1)
  if echo "$OUT" | grep -q "^VIOLATION"; then echo "FALSE-ALARM $(basename $R) $P :: $LINE"; echo "$OUT" | grep -E "violated:|undecided:" | head -8
  else echo "ok $(basename $R) $P :: $LINE"; echo "$OUT" | grep -E "undecided:" | head -4; fi
done
rm -rf $D $VERIF_DEV_KANI_CACHE
