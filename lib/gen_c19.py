#!/usr/bin/env python3
"""C19 generator: source scan x oracle table -> Kani harness file.

    python3 lib/gen_c19.py --repo /repo --out out/c19_constants.rs [--json out/c19_constants.json]
                           [--table spec/arch_constants.toml] [--list]

Scans every `src/**/*.rs` of the crate for
  * `const NAME = expr;` inside `bitflags! { struct S: T { .. } }`,
  * `const NAME: T = expr;` items (impl blocks, trait impls, top level, fn-local, macro bodies),
  * `enum` declarations (variants, explicit discriminants, `#[repr(..)]`),
and joins the result with spec/arch_constants.toml.

Every scanned constant must be claimed by a table group, listed in the
table's [ignore] section with a reason, or be private (then a SKIPPED-PRIVATE
line is printed). Otherwise `MISSING-IN-TABLE <group>.<name>` is printed; a
table entry without a source constant prints `MISSING-IN-SOURCE <group>.<name>`.
Either makes the exit status 3 (the harness file is still written, for the
constants that do match, but the run must not count as a pass).

Exit status: 0 ok, 2 usage / parse error, 3 table and source disagree on the
set of names.

Python 3.11+ stdlib only (tomllib).
"""
import argparse
import json
import os
import re
import sys

try:
    import tomllib
except ImportError:  # pragma: no cover
    sys.stderr.write("gen_c19.py needs python >= 3.11 (tomllib)\n")
    sys.exit(2)

META_KEYS = {"file", "kind", "type", "path", "read", "discriminants", "harness"}
PROP = "C19"


# --------------------------------------------------------------------------
# lexical stripping: comments, strings and char literals become blanks, so
# that braces and `const` inside them are never seen. Offsets are preserved.
def strip_rust(src):
    out = list(src)
    i, n = 0, len(src)

    def blank(a, b):
        for k in range(a, b):
            if out[k] != "\n":
                out[k] = " "

    while i < n:
        c = src[i]
        if src.startswith("//", i):
            j = src.find("\n", i)
            j = n if j < 0 else j
            blank(i, j)
            i = j
        elif src.startswith("/*", i):
            depth, j = 1, i + 2
            while j < n and depth:
                if src.startswith("/*", j):
                    depth += 1
                    j += 2
                elif src.startswith("*/", j):
                    depth -= 1
                    j += 2
                else:
                    j += 1
            blank(i, j)
            i = j
        elif c == '"' or (c in "rb" and re.match(r'(?:b?r#*"|b")', src[i:i + 8]) and
                          (i == 0 or not (src[i - 1].isalnum() or src[i - 1] == "_"))):
            m = re.match(r'b?r(#*)"', src[i:])
            if m:  # raw string
                end = '"' + m.group(1)
                j = src.find(end, i + m.end())
                j = n if j < 0 else j + len(end)
            else:
                j = i + (2 if c == "b" else 1)
                while j < n and src[j] != '"':
                    j += 2 if src[j] == "\\" else 1
                j = min(n, j + 1)
            blank(i + 1, j - 1)  # keep the quotes: harmless, keeps token boundaries
            i = j
        elif c == "'":
            m = re.match(r"'(?:\\(?:x[0-9a-fA-F]{2}|u\{[0-9a-fA-F_]+\}|.)|[^\\'\n])'", src[i:])
            if m:  # char literal (otherwise a lifetime)
                blank(i + 1, i + m.end() - 1)
                i += m.end()
            else:
                i += 1
        else:
            i += 1
    return "".join(out)


def line_of(text, pos):
    return text.count("\n", 0, pos) + 1


CONST_RE = re.compile(
    r"(?<![\w*])const\s+([A-Za-z_][A-Za-z0-9_]*)\s*(?::\s*((?:[^=;{}\[]|\[[^\]]*\])+?))?\s*=(?!=)\s*([^;]*);", re.S)
ENUM_RE = re.compile(r"\benum\s+([A-Za-z_][A-Za-z0-9_]*)\s*(?:<[^{]*>)?\s*\{")


def split_top(body):
    """Split an enum body at top-level commas."""
    parts, depth, cur = [], 0, []
    for ch in body:
        if ch in "([{<":
            depth += 1
        elif ch in ")]}>":
            depth -= 1
        if ch == "," and depth == 0:
            parts.append("".join(cur))
            cur = []
        else:
            cur.append(ch)
    parts.append("".join(cur))
    return parts


def scan_file(repo, rel):
    """Returns (consts, enums) found in one file."""
    with open(os.path.join(repo, rel), encoding="utf-8") as f:
        orig = f.read()
    txt = strip_rust(orig)
    consts, enums = [], []

    wanted = {m.start(): ("const", m) for m in CONST_RE.finditer(txt)}
    for m in ENUM_RE.finditer(txt):
        wanted[m.start()] = ("enum", m)

    stack = []  # (header text, offset of '{')
    hdr_start = 0
    i, n = 0, len(txt)
    while i < n:
        if i in wanted:
            kind, m = wanted[i]
            ctx = [h for h, _ in stack]
            lead = txt[hdr_start:i]  # text of this item before `const` / `enum`
            if kind == "const" and lead.rstrip().endswith(("<", ",")):
                pass  # const generic parameter with a default, not an item
            elif kind == "const":
                consts.append(make_const(rel, orig, txt, m, ctx, lead))
            else:
                enums.append(make_enum(rel, orig, txt, m, ctx, lead))
        ch = txt[i]
        if ch == "{":
            stack.append((" ".join(txt[hdr_start:i].split()), i))
            hdr_start = i + 1
        elif ch == "}":
            if stack:
                stack.pop()
            hdr_start = i + 1
        elif ch == ";":
            hdr_start = i + 1
        i += 1
    return consts, enums


def self_type_of_impl(header):
    """`impl<S: PageSize> Page<S>` -> (None, 'Page<S>'); `impl PageSize for Size4KiB` -> ('PageSize','Size4KiB')."""
    h = re.sub(r"#\[[^\]]*\]", " ", header).strip()
    m = re.search(r"\bimpl\b\s*(.*)$", h)
    if not m:
        return None
    rest = m.group(1).strip()
    if rest.startswith("<"):  # generic parameter list
        depth = 0
        for k, ch in enumerate(rest):
            if ch == "<":
                depth += 1
            elif ch == ">":
                depth -= 1
                if depth == 0:
                    rest = rest[k + 1:].strip()
                    break
    rest = re.split(r"\bwhere\b", rest)[0].strip()
    trait = None
    mm = re.match(r"(.+?)\s+for\s+(.+)$", rest)
    if mm:
        trait, rest = mm.group(1).strip(), mm.group(2).strip()
    return trait, re.sub(r"\s+", "", rest)


def make_const(rel, orig, txt, m, ctx, lead):
    name = m.group(1)
    in_macro = any(re.search(r"\bmacro_rules!", h) for h in ctx)
    bitflags_struct = None
    bits_type = None
    owner, trait, fn_name = None, None, None
    for k in range(len(ctx) - 1, -1, -1):
        h = ctx[k]
        sm = re.search(r"\bstruct\s+(\w+)\s*:\s*(\w+)\s*$", h)
        if sm and k > 0 and re.search(r"\bbitflags!\s*$", ctx[k - 1]):
            bitflags_struct, bits_type = sm.group(1), sm.group(2)
            break
        if re.search(r"\bfn\s+\w+", h) and fn_name is None and owner is None:
            fn_name = re.search(r"\bfn\s+(\w+)", h).group(1)
        if re.search(r"(^|\s)impl\b", re.sub(r"#\[[^\]]*\]", " ", h)) and owner is None:
            st = self_type_of_impl(h)
            if st:
                trait, owner = st
            break
    public = bool(re.search(r"\bpub\b(\s*\(\s*crate\s*\))?\s*$", lead.strip())) and \
        not re.search(r"\bpub\s*\(\s*(super|self|in\b)", lead)
    if fn_name is not None:
        where, public = "fn:" + fn_name, False
    elif bitflags_struct:
        where, public = bitflags_struct, True
    elif owner is not None:
        where = owner
        if trait is not None:
            public = True  # trait impl items carry the trait's visibility
    elif in_macro:
        where = "macro"
    else:
        where = "<top>"
    if in_macro and fn_name is not None:
        where = "macro"
    return {
        "file": rel, "line": line_of(txt, m.start()), "name": name,
        "type": (m.group(2) or "").strip() or None,
        "expr": " ".join(orig[m.start(3):m.end(3)].split()),
        "bitflags": bitflags_struct, "bits_type": bits_type,
        "owner": where, "trait": trait, "in_macro": in_macro, "in_fn": fn_name,
        "public": public,
        "key": "%s:%s.%s" % (rel, where, name),
    }


def make_enum(rel, orig, txt, m, ctx, lead):
    name = m.group(1)
    # body: matching brace
    start = m.end() - 1
    depth, j = 0, start
    while j < len(txt):
        if txt[j] == "{":
            depth += 1
        elif txt[j] == "}":
            depth -= 1
            if depth == 0:
                break
        j += 1
    body = txt[start + 1:j]
    variants = []
    off = start + 1
    for part in split_top(body):
        p = re.sub(r"#\[[^\]]*\]", lambda mm: " " * len(mm.group(0)), part)
        vm = re.match(r"\s*([A-Za-z_]\w*)\s*(=\s*(.+?))?\s*(\(|\{|$)", p, re.S)
        if vm and p.strip():
            payload = vm.group(4) in ("(", "{")
            variants.append({
                "name": vm.group(1),
                "expr": (vm.group(3) or "").strip() or None,
                "payload": payload,
                "line": line_of(txt, off + part.find(vm.group(1))),
            })
        off += len(part) + 1
    rep = re.search(r"#\[\s*repr\s*\(\s*([ui]\d+|[ui]size)\s*\)\s*\]", lead)
    return {
        "file": rel, "line": line_of(txt, m.start()), "name": name,
        "variants": variants, "repr": rep.group(1) if rep else None,
        "public": bool(re.search(r"\bpub\b\s*$", lead.strip())),
        "in_macro": any(re.search(r"\bmacro_rules!", h) for h in ctx),
        "in_fn": any(re.search(r"\bfn\s+\w+", h) for h in ctx),
        "explicit": any(v["expr"] is not None for v in variants),
    }


def scan_repo(repo):
    consts, enums = [], []
    src = os.path.join(repo, "src")
    for root, _dirs, files in sorted(os.walk(src)):
        for fn in sorted(files):
            if fn.endswith(".rs"):
                rel = os.path.relpath(os.path.join(root, fn), repo)
                c, e = scan_file(repo, rel)
                consts += c
                enums += e
    return consts, enums


# --------------------------------------------------------------------------
def module_path(rel):
    """src/registers/control.rs -> crate::registers::control"""
    p = rel[len("src/"):-len(".rs")]
    parts = [x for x in p.split("/")]
    if parts[-1] in ("mod", "lib"):
        parts = parts[:-1]
    return "::".join(["crate"] + parts)


def ident(s):
    return re.sub(r"[^A-Za-z0-9]+", "_", s).strip("_").lower()


def paren(e):
    return "(%s)" % e


class Gen:
    def __init__(self, table, consts, enums):
        self.table = table
        self.consts = consts
        self.enums = enums
        self.msgs = []          # report lines
        self.bad = False
        self.harness = {}       # harness fn -> list of obligation dicts
        self.order = []
        self.skipped_private = []
        self.ignored = []

    def report(self, line, bad=False):
        self.msgs.append(line)
        if bad:
            self.bad = True

    def add(self, group, hname, oname, check_expr, src, table_expr, src_expr=None):
        fn = "c19_const_" + ident(hname)
        if fn not in self.harness:
            self.harness[fn] = []
            self.order.append(fn)
        self.harness[fn].append({
            "name": "%s.%s.%s" % (PROP, group, oname),
            "assert": check_expr,
            "source": src,
            "source_expr": src_expr,
            "table_expr": table_expr,
        })

    def run(self):
        claimed = set()
        for gname, g in self.table.items():
            if gname == "ignore":
                continue
            if not isinstance(g, dict) or "kind" not in g or "file" not in g:
                raise SystemExit("table group [%s] needs `kind` and `file`" % gname)
            entries = {k: v for k, v in g.items() if k not in META_KEYS}
            kind = g["kind"]
            hname = g.get("harness", gname)
            if kind == "bitflags":
                self.do_bitflags(gname, g, entries, hname, claimed)
            elif kind == "consts":
                self.do_consts(gname, g, entries, hname, claimed)
            elif kind == "enum":
                self.do_enum(gname, g, entries, hname, claimed)
            elif kind == "exprs":
                for n, v in entries.items():
                    self.add(gname, hname, n, "%s == %s" % (v["expr"], paren(v["value"])),
                             g["file"], v["value"], v["expr"])
            else:
                raise SystemExit("table group [%s]: unknown kind %r" % (gname, kind))
        # everything the scan found and nobody claimed
        ignore = dict(self.table.get("ignore", {}))
        used_ignore = set()
        for c in self.consts:
            if id(c) in claimed:
                continue
            label = "%s.%s" % (c["bitflags"] or c["owner"], c["name"])
            if c["key"] in ignore:
                used_ignore.add(c["key"])
                self.ignored.append({"key": c["key"], "line": c["line"], "reason": ignore[c["key"]]})
            elif c["bitflags"]:
                self.report("MISSING-IN-TABLE %s  (%s:%d, no [%s] bitflags group)" %
                            (label, c["file"], c["line"], c["bitflags"]), bad=True)
            elif not c["public"]:
                self.skipped_private.append({"key": c["key"], "line": c["line"], "expr": c["expr"]})
                self.report("SKIPPED-PRIVATE %s  (%s:%d)" % (label, c["file"], c["line"]))
            else:
                self.report("MISSING-IN-TABLE %s  (%s:%d, key \"%s\")" %
                            (label, c["file"], c["line"], c["key"]), bad=True)
        for k in ignore:
            if k not in used_ignore:
                self.report("MISSING-IN-SOURCE ignore.\"%s\"  (stale [ignore] entry)" % k, bad=True)
        for e in self.enums:
            if id(e) in claimed or e["in_macro"] or e["in_fn"]:
                continue
            if e["explicit"] or e["repr"]:
                for v in e["variants"]:
                    self.report("MISSING-IN-TABLE %s.%s  (%s:%d, enum with explicit discriminants / repr)" %
                                (e["name"], v["name"], e["file"], v["line"]), bad=True)

    # -- bitflags ----------------------------------------------------------
    def do_bitflags(self, gname, g, entries, hname, claimed):
        src = [c for c in self.consts if c["bitflags"] == gname and c["file"] == g["file"]]
        path = g.get("path") or "%s::%s" % (module_path(g["file"]), gname)
        names_src = [c["name"] for c in src]
        for c in src:
            claimed.add(id(c))
            if c["name"] not in entries:
                self.report("MISSING-IN-TABLE %s.%s  (%s:%d)" % (gname, c["name"], c["file"], c["line"]), bad=True)
                continue
            te = entries[c["name"]]
            self.add(gname, hname, c["name"],
                     "%s::%s.bits() == %s" % (path, c["name"], paren(te)),
                     "%s:%d" % (c["file"], c["line"]), te, c["expr"])
        for n in entries:
            if n not in names_src:
                self.report("MISSING-IN-SOURCE %s.%s  (%s)" % (gname, n, g["file"]), bad=True)
        if src:
            # all() over the TABLE's entries for the names that exist in the source
            ors = " | ".join(paren(entries[n]) for n in names_src if n in entries) or "0"
            first = min(c["line"] for c in src)
            self.add(gname, hname, "all", "%s::all().bits() == %s" % (path, ors),
                     "%s:%d" % (g["file"], first), ors, "all()")

    # -- associated / top-level consts --------------------------------------
    def do_consts(self, gname, g, entries, hname, claimed):
        ty = g.get("type", gname)
        src = [c for c in self.consts
               if c["file"] == g["file"] and c["owner"] == ty and not c["bitflags"] and not c["in_macro"]]
        # several table groups may share one impl type (e.g. presets): claim only listed names,
        # the rest falls through to the unclaimed pass.
        base = g.get("path")
        if base is None:
            base = module_path(g["file"]) if ty == "<top>" else "%s::%s" % (module_path(g["file"]), ty)
        found = set()
        for c in src:
            if c["name"] not in entries:
                continue
            claimed.add(id(c))
            found.add(c["name"])
            if not c["public"]:
                self.skipped_private.append({"key": c["key"], "line": c["line"], "expr": c["expr"]})
                self.report("SKIPPED-PRIVATE %s.%s  (%s:%d, in table but not reachable from src/lib.rs)" %
                            (gname, c["name"], c["file"], c["line"]))
                continue
            te = entries[c["name"]]
            read = g.get("read", "{}")
            value = te
            instances = None
            if isinstance(te, dict):
                read = te.get("read", read)
                instances = te.get("instances")
                value = te.get("value")
            where = "%s:%d" % (c["file"], c["line"])
            if instances:
                for k, (inst, val) in enumerate(instances.items()):
                    item = "%s::%s" % (base.replace("<S>", "<%s>" % inst), c["name"])
                    short = inst.split("::")[-1]
                    self.add(gname, hname, "%s.%s" % (c["name"], short),
                             "%s == %s" % (read.replace("{}", item), paren(val)), where, val, c["expr"])
            elif isinstance(value, list):
                item = "%s::%s" % (base, c["name"])
                self.add(gname, hname, "%s.len" % c["name"],
                         "%s.len() == %d" % (item, len(value)), where, str(len(value)), c["expr"])
                for k, val in enumerate(value):
                    self.add(gname, hname, "%s.%d" % (c["name"], k),
                             "%s == %s" % (read.replace("{}", "%s[%d]" % (item, k)), paren(val)),
                             where, val, c["expr"])
            else:
                item = "%s::%s" % (base, c["name"])
                self.add(gname, hname, c["name"],
                         "%s == %s" % (read.replace("{}", item), paren(value)), where, value, c["expr"])
        for n in entries:
            if n not in found:
                self.report("MISSING-IN-SOURCE %s.%s  (%s, impl %s)" % (gname, n, g["file"], ty), bad=True)

    # -- enums ---------------------------------------------------------------
    def do_enum(self, gname, g, entries, hname, claimed):
        ty = g.get("type", gname)
        es = [e for e in self.enums if e["name"] == ty and e["file"] == g["file"]]
        if not es:
            for n in entries:
                self.report("MISSING-IN-SOURCE %s.%s  (%s, no enum %s)" % (gname, n, g["file"], ty), bad=True)
            return
        e = es[0]
        claimed.add(id(e))
        path = g.get("path") or "%s::%s" % (module_path(g["file"]), ty)
        if not e["public"]:
            self.report("SKIPPED-PRIVATE %s.*  (%s:%d, enum is not pub)" % (gname, e["file"], e["line"]))
            return
        names_src = [v["name"] for v in e["variants"]]
        for v in e["variants"]:
            if v["name"] not in entries:
                self.report("MISSING-IN-TABLE %s.%s  (%s:%d)" % (gname, v["name"], e["file"], v["line"]), bad=True)
                continue
            if g.get("discriminants", True) is False:
                continue
            if v["payload"]:
                self.report("SKIPPED-PRIVATE %s.%s  (%s:%d, variant carries data: no numeric cast)" %
                            (gname, v["name"], e["file"], v["line"]))
                continue
            te = entries[v["name"]]
            self.add(gname, hname, v["name"],
                     "(%s::%s as u64) == %s" % (path, v["name"], paren(te)),
                     "%s:%d" % (e["file"], v["line"]), te, v["expr"] or "(implicit)")
        for n in entries:
            if n not in names_src:
                self.report("MISSING-IN-SOURCE %s.%s  (%s)" % (gname, n, g["file"]), bad=True)

    # -- output ----------------------------------------------------------------
    def emit_rust(self, modname, table_path):
        o = []
        o.append("//@ include-into src/lib.rs")
        o.append("// GENERATED by lib/gen_c19.py from %s and a scan of the crate source." % table_path)
        o.append("// Do not edit: regenerate. One assertion per named constant: crate value == oracle value.")
        o.append("#[cfg(kani)]")
        o.append("#[allow(unused_imports, clippy::all)]")
        o.append("mod %s {" % modname)
        o.append("    use super::*;")
        for fn in self.order:
            obs = self.harness[fn]
            o.append("")
            for ob in obs:
                o.append("    //@ obligation %s %s tier=quick" % (PROP, ob["name"]))
            o.append("    #[kani::proof]")
            o.append("    fn %s() {" % fn)
            o.append("        kani::cover!(true, \"%s: reachable\");" % fn)
            for ob in obs:
                o.append("        // %s  source: %s  table: %s" % (ob["source"], ob["source_expr"], ob["table_expr"]))
                o.append("        assert!(%s, \"%s: value\");" % (ob["assert"], ob["name"]))
            o.append("    }")
        o.append("}")
        o.append("")
        return "\n".join(o)

    def emit_json(self, repo, table_path):
        return {
            "property": PROP,
            "repo": repo,
            "table": table_path,
            "harnesses": [{"harness": fn, "obligations": self.harness[fn]} for fn in self.order],
            "obligation_count": sum(len(self.harness[fn]) for fn in self.order),
            "skipped_private": self.skipped_private,
            "ignored": self.ignored,
            "report": self.msgs,
            "names_agree": not self.bad,
        }


def main():
    here = os.path.dirname(os.path.abspath(__file__))
    ap = argparse.ArgumentParser(description=__doc__, formatter_class=argparse.RawDescriptionHelpFormatter)
    ap.add_argument("--repo", required=True, help="crate root (the scanned copy)")
    ap.add_argument("--table", default=os.path.join(here, "..", "spec", "arch_constants.toml"))
    ap.add_argument("--out", help="generated Kani harness file (.rs)")
    ap.add_argument("--json", help="JSON sidecar with every obligation")
    ap.add_argument("--mod-name", help="module name (default: verif_<stem of --out>)")
    ap.add_argument("--list", action="store_true", help="print what the scan found (names only) and exit")
    a = ap.parse_args()

    try:
        with open(a.table, "rb") as f:
            table = tomllib.load(f)
    except (OSError, tomllib.TOMLDecodeError) as e:
        sys.stderr.write("gen_c19.py: cannot read table %s: %s\n" % (a.table, e))
        return 2
    if not os.path.isdir(os.path.join(a.repo, "src")):
        sys.stderr.write("gen_c19.py: %s has no src/\n" % a.repo)
        return 2
    consts, enums = scan_repo(a.repo)

    if a.list:
        for c in consts:
            print("const %-70s %s line %d%s" % (c["key"], "pub " if c["public"] else "priv", c["line"],
                                               "  [bitflags %s]" % c["bitflags"] if c["bitflags"] else ""))
        for e in enums:
            print("enum  %s:%s  repr=%s explicit=%s variants=%s" %
                  (e["file"], e["name"], e["repr"], e["explicit"], ",".join(v["name"] for v in e["variants"])))
        return 0

    g = Gen(table, consts, enums)
    g.run()
    table_rel = os.path.relpath(os.path.abspath(a.table), os.path.join(here, ".."))
    if a.out:
        stem = os.path.splitext(os.path.basename(a.out))[0]
        modname = a.mod_name or "verif_" + ident(stem)
        os.makedirs(os.path.dirname(os.path.abspath(a.out)) or ".", exist_ok=True)
        with open(a.out, "w", encoding="utf-8") as f:
            f.write(g.emit_rust(modname, table_rel))
    if a.json:
        os.makedirs(os.path.dirname(os.path.abspath(a.json)) or ".", exist_ok=True)
        with open(a.json, "w", encoding="utf-8") as f:
            json.dump(g.emit_json(os.path.abspath(a.repo), table_rel), f, indent=1)
            f.write("\n")
    for line in g.msgs:
        print(line)
    nob = sum(len(v) for v in g.harness.values())
    print("gen_c19: %d obligations in %d harnesses; %d private skipped; %d ignored; names %s" %
          (nob, len(g.order), len(g.skipped_private), len(g.ignored),
           "DISAGREE" if g.bad else "agree"))
    return 3 if g.bad else 0


if __name__ == "__main__":
    sys.exit(main())
