#!/bin/bash
# usage: lib/seed_recheck.sh <seeded-dir-name> [PROP] [--tier thorough]
# Re-runs ./check on a scratch copy of /repo with seeded/<name>/patch.diff applied and records the
# outcome under "recheck" in its meta.json (the stored demo is not re-run).
set -u
NAME=$1; PROP=${2:-${NAME%%-*}}; shift; shift || true
S=/verif/seeded/$NAME
D=/var/tmp/verif-reseed-$$; rm -rf $D; mkdir -p $D; rsync -a --exclude target --exclude .git /repo/ $D/
(cd $D && git apply --unsafe-paths $S/patch.diff 2>/dev/null || patch -p1 -s < $S/patch.diff) || { echo "PATCH DOES NOT APPLY"; rm -rf $D; exit 1; }
cd /verif; C=$(VERIF_REPO=$D ./check $PROP "$@" 2>&1 | grep -v "^WARNING conda" | tail -8); echo "$C"; rm -rf $D
python3 - "$PROP" "$S/meta.json" "$C" <<'PY'
import json,sys
prop,dst,c=sys.argv[1:4]
m=json.load(open(dst))
m['recheck']={'property':prop,'check_output':c,'detected':'VIOLATION property=%s'%prop in c}
json.dump(m,open(dst,'w'),indent=1)
print('detected' if m['recheck']['detected'] else 'MISSED')
PY
