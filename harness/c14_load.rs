//@ include-into src/structures/gdt.rs
// C14, "load" clause: loading a GDT hands the CPU the table's own address with
// limit 8 x (used slots) - 1.
//
// Observed at the operand of the trapped `lgdt` (machine shim: the model reads
// the 10-byte pseudo-descriptor THROUGH the pointer it is given: u16 limit at
// +0, u64 base at +2, independent of the crate's DescriptorTablePointer type),
// for tables built by `empty()` + 0, 1 or 2 appended symbolic descriptors
// (user = 1 slot, system = 2 slots; unrolled by hand, no loop).
//
// ASSUMPTION (stub): `pointer()` wraps the table address in `VirtAddr::new`,
// which panics on non-canonical values. CBMC encodes a pointer as
// (object number << 48 | offset), which is not canonical, so every harness
// here replaces `VirtAddr::new` by the unchecked constructor. On hardware the
// address of a live object is always canonical, so the replaced check cannot
// fire there. (C03 proves `VirtAddr::new` itself.)
#[cfg(kani)]
#[allow(unused_imports, clippy::all)]
mod verif_c14_load {
    use super::*;
    use crate::verif_hw::{self, Kind, Machine};
    use crate::VirtAddr;

    /// Stub for `VirtAddr::new`: no canonicality check (see file header).
    fn virt_addr_new_unchecked(addr: u64) -> VirtAddr {
        // SAFETY (harness): models "the address of a live object is canonical".
        unsafe { VirtAddr::new_unsafe(addr) }
    }

    fn any_descriptor() -> Descriptor {
        if kani::any() {
            Descriptor::UserSegment(kani::any())
        } else {
            Descriptor::SystemSegment(kani::any(), kani::any())
        }
    }

    fn slots(d: Descriptor) -> usize {
        match d {
            Descriptor::UserSegment(_) => 1,
            Descriptor::SystemSegment(_, _) => 2,
        }
    }

    /// The postcondition, shared by the harnesses below.
    macro_rules! check_loaded {
        ($gdt:expr, $used:expr, $before:expr) => {{
            let m = verif_hw::m();
            let table_addr = $gdt.table.as_ptr() as u64;
            let want_limit = (8 * $used - 1) as u64;
            assert!(
                m.log_len == 1 && !m.log_overflow && !m.unknown_asm_hit && m.log[0].kind == Kind::Lgdt,
                "C14.Gdt_load.lgdt_base_limit: exactly one event and it is lgdt"
            );
            assert!(
                m.log[0].a == table_addr,
                "C14.Gdt_load.lgdt_base_limit: base == address of the table's entry array"
            );
            assert!(
                m.log[0].b == want_limit,
                "C14.Gdt_load.lgdt_base_limit: limit == 8 * used slots - 1"
            );
            assert!(
                $gdt.limit() as u64 == want_limit,
                "C14.Gdt_load.lgdt_base_limit: limit() == 8 * used slots - 1"
            );
            assert!(
                m.gdtr_base == table_addr && m.gdtr_limit as u64 == want_limit,
                "C14.Gdt_load.gdtr_updated_nothing_else: GDTR holds base and limit"
            );
            assert!(
                m.regs_same_except(&$before, verif_hw::field::GDTR),
                "C14.Gdt_load.gdtr_updated_nothing_else: no other register changed"
            );
        }};
    }

    //@ obligation C14 C14.Gdt_load.lgdt_base_limit
    //@ obligation C14 C14.Gdt_load.gdtr_updated_nothing_else
    #[kani::proof]
    #[kani::stub(crate::addr::VirtAddr::new, virt_addr_new_unchecked)]
    fn c14_gdt_load_unsafe_base_limit() {
        verif_hw::reset_symbolic();
        let n: u8 = kani::any();
        kani::assume(n <= 2);
        let d1 = any_descriptor();
        let d2 = any_descriptor();
        kani::cover!(true, "c14_gdt_load_unsafe_base_limit: reachable");
        let mut gdt = GlobalDescriptorTable::<8>::empty();
        let mut used = 1usize;
        if n >= 1 {
            gdt.append(d1);
            used += slots(d1);
        }
        if n >= 2 {
            gdt.append(d2);
            used += slots(d2);
        }
        kani::cover!(used == 5, "c14_gdt_load_unsafe_base_limit: two system descriptors");
        let before = *verif_hw::m();
        unsafe { gdt.load_unsafe() };
        check_loaded!(gdt, used, before);
    }

    /// The safe `load(&'static self)`: same event.
    //@ obligation C14 C14.Gdt_load.lgdt_base_limit
    //@ obligation C14 C14.Gdt_load.gdtr_updated_nothing_else
    #[kani::proof]
    #[kani::stub(crate::addr::VirtAddr::new, virt_addr_new_unchecked)]
    fn c14_gdt_load_static_base_limit() {
        verif_hw::reset_symbolic();
        let n: u8 = kani::any();
        kani::assume(n <= 2);
        let d1 = any_descriptor();
        let d2 = any_descriptor();
        kani::cover!(true, "c14_gdt_load_static_base_limit: reachable");
        let mut gdt = GlobalDescriptorTable::<8>::empty();
        let mut used = 1usize;
        if n >= 1 {
            gdt.append(d1);
            used += slots(d1);
        }
        if n >= 2 {
            gdt.append(d2);
            used += slots(d2);
        }
        // harness-only lifetime extension; `gdt` outlives every use below
        let r: &'static GlobalDescriptorTable<8> =
            unsafe { &*(&gdt as *const GlobalDescriptorTable<8>) };
        let before = *verif_hw::m();
        r.load();
        check_loaded!(gdt, used, before);
    }

    /// Another capacity: MAX = 3 filled completely (null + system descriptor),
    /// and MAX = 1 (null descriptor only).
    //@ obligation C14 C14.Gdt_load.lgdt_base_limit
    #[kani::proof]
    #[kani::stub(crate::addr::VirtAddr::new, virt_addr_new_unchecked)]
    fn c14_gdt_load_other_capacities() {
        verif_hw::reset_symbolic();
        let lo: u64 = kani::any();
        let hi: u64 = kani::any();
        kani::cover!(true, "c14_gdt_load_other_capacities: reachable");
        let mut g3 = GlobalDescriptorTable::<3>::empty();
        g3.append(Descriptor::SystemSegment(lo, hi));
        let before = *verif_hw::m();
        unsafe { g3.load_unsafe() };
        check_loaded!(g3, 3usize, before);
        verif_hw::m().clear_log();
        let g1 = GlobalDescriptorTable::<1>::empty();
        let before = *verif_hw::m();
        unsafe { g1.load_unsafe() };
        check_loaded!(g1, 1usize, before);
    }
}
