//@ include-into src/lib.rs
//
// E1 TWINS of Verus obligations that rest on bit-vector hints or non-linear
// arithmetic lemmas (C03, C04, C06). Same obligation NAMES as in
// /verif/spec/*.spec.rs, so the driver pairs the two engines; each twin is a
// loop-free full-domain Kani harness that asserts the same pre/postcondition
// through the PUBLIC API (no private field is read). CBMC decides these
// bit-precisely, so a twin that passes makes the obligation independent of the
// `by (bit_vector)` hints and lemmas of the Verus proof, and a twin that fails
// comes with a concrete input.
//
// Vocabulary (written independently of the crate AND of the crate's own
// shift trick for sign extension):
//   canonical(a): bits 47..63 all equal;  sext48(a): copy bit 47 into 48..63.
#[cfg(kani)]
#[allow(unused_imports, clippy::all)]
mod verif_c03_twins {
    use super::*;
    use crate::structures::paging::page_table::PageTableLevel;
    use crate::structures::paging::{Page, PageTableIndex, Size1GiB, Size2MiB, Size4KiB};

    /// Tags a contract clause with its obligation name (identity on `c`).
    fn ob(_name: &'static str, c: bool) -> bool {
        c
    }

    /// "the call returned although the input is invalid": see lib/C19_NOTES.md.
    #[inline(never)]
    fn returned_on_invalid_input() {
        unsafe { core::hint::unreachable_unchecked() }
    }

    const LOW48: u64 = 0x0000_ffff_ffff_ffff;
    const TWO52: u64 = 0x0010_0000_0000_0000;

    fn canonical(a: u64) -> bool {
        a < 0x0000_8000_0000_0000 || a >= 0xffff_8000_0000_0000
    }

    fn sext48(a: u64) -> u64 {
        if a & (1u64 << 47) != 0 {
            a | 0xffff_0000_0000_0000
        } else {
            a & LOW48
        }
    }

    // ------------------------------------------------------------ C03 VirtAddr

    #[kani::ensures(|r: &(u64, u64, u64)| ob("C03.VirtAddr_new_truncate.sign_extends_idempotent_low48",
        r.0 == sext48(addr)                      // the value
        && canonical(r.0)                        // wf
        && (!canonical(addr) || r.0 == addr)     // agrees with the checked constructors on valid input
        && r.1 == r.0                            // depends only on the low 48 bits
        && r.2 == r.0))]                         // idempotent
    fn w_virt_new_truncate(addr: u64) -> (u64, u64, u64) {
        let r = VirtAddr::new_truncate(addr).as_u64();
        (
            r,
            VirtAddr::new_truncate(addr & LOW48).as_u64(),
            VirtAddr::new_truncate(r).as_u64(),
        )
    }

    //@ obligation C03 C03.VirtAddr_new_truncate.sign_extends_idempotent_low48
    #[kani::proof_for_contract(w_virt_new_truncate)]
    fn c03_twin_virt_new_truncate() {
        let _ = w_virt_new_truncate(kani::any());
        kani::cover!(true, "c03_twin_virt_new_truncate: reachable");
    }

    /// Ok(v) -> (true, v), Err(VirtAddrNotValid(e)) -> (false, e)
    #[kani::ensures(|r: &(bool, u64)| ob("C03.VirtAddr_try_new.ok_iff_canonical_unchanged",
        r.0 == canonical(addr) && r.1 == addr))]
    fn w_virt_try_new(addr: u64) -> (bool, u64) {
        match VirtAddr::try_new(addr) {
            Ok(v) => (true, v.as_u64()),
            Err(e) => (false, e.0),
        }
    }

    //@ obligation C03 C03.VirtAddr_try_new.ok_iff_canonical_unchanged
    #[kani::proof_for_contract(w_virt_try_new)]
    fn c03_twin_virt_try_new() {
        let _ = w_virt_try_new(kani::any());
        kani::cover!(true, "c03_twin_virt_try_new: reachable");
    }

    #[kani::requires(canonical(addr))]
    #[kani::ensures(|r: &u64| ob("C03.VirtAddr_new.returns_iff_canonical", *r == addr))]
    fn w_virt_new(addr: u64) -> u64 {
        VirtAddr::new(addr).as_u64()
    }

    //@ obligation C03 C03.VirtAddr_new.returns_iff_canonical
    #[kani::proof_for_contract(w_virt_new)]
    fn c03_twin_virt_new_accepts() {
        let _ = w_virt_new(kani::any());
        kani::cover!(true, "c03_twin_virt_new_accepts: reachable");
    }

    //@ obligation C03 C03.VirtAddr_new.returns_iff_canonical
    #[kani::proof]
    #[kani::should_panic]
    fn c03_twin_virt_new_rejects() {
        let addr: u64 = kani::any();
        kani::assume(!canonical(addr));
        kani::cover!(true, "c03_twin_virt_new_rejects: reachable");
        let _ = VirtAddr::new(addr);
        returned_on_invalid_input();
    }

    // ------------------------------------------------------------ C03 PhysAddr

    #[kani::ensures(|r: &(u64, u64)| ob("C03.PhysAddr_new_truncate.mod_2_52_idempotent",
        r.0 == addr % TWO52
        && r.0 == addr & (TWO52 - 1)
        && r.0 < TWO52
        && (addr >= TWO52 || r.0 == addr)
        && r.1 == r.0))]
    fn w_phys_new_truncate(addr: u64) -> (u64, u64) {
        let r = PhysAddr::new_truncate(addr).as_u64();
        (r, PhysAddr::new_truncate(r).as_u64())
    }

    //@ obligation C03 C03.PhysAddr_new_truncate.mod_2_52_idempotent
    #[kani::proof_for_contract(w_phys_new_truncate)]
    fn c03_twin_phys_new_truncate() {
        let _ = w_phys_new_truncate(kani::any());
        kani::cover!(true, "c03_twin_phys_new_truncate: reachable");
    }

    #[kani::ensures(|r: &(bool, u64)| ob("C03.PhysAddr_try_new.ok_iff_52bit_unchanged",
        r.0 == (addr < TWO52) && r.1 == addr))]
    fn w_phys_try_new(addr: u64) -> (bool, u64) {
        match PhysAddr::try_new(addr) {
            Ok(p) => (true, p.as_u64()),
            Err(e) => (false, e.0),
        }
    }

    //@ obligation C03 C03.PhysAddr_try_new.ok_iff_52bit_unchanged
    #[kani::proof_for_contract(w_phys_try_new)]
    fn c03_twin_phys_try_new() {
        let _ = w_phys_try_new(kani::any());
        kani::cover!(true, "c03_twin_phys_try_new: reachable");
    }

    // -------------------------------------------------- C04 VirtAddr -> indices

    fn any_virt() -> (u64, VirtAddr) {
        let a: u64 = kani::any();
        kani::assume(canonical(a));
        (a, VirtAddr::new(a))
    }

    //@ obligation C04 C04.VirtAddr_page_offset.bits_0_11
    //@ obligation C04 C04.VirtAddr_p1_index.bits_12_20
    //@ obligation C04 C04.VirtAddr_p2_index.bits_21_29
    //@ obligation C04 C04.VirtAddr_p3_index.bits_30_38
    //@ obligation C04 C04.VirtAddr_p4_index.bits_39_47
    #[kani::proof]
    fn c04_twin_virt_indices() {
        let (a, v) = any_virt();
        kani::cover!(true, "c04_twin_virt_indices: reachable");
        let off = u16::from(v.page_offset());
        assert!(
            off as u64 == a & 0xfff && off < 4096 && u64::from(v.page_offset()) == a & 0xfff,
            "C04.VirtAddr_page_offset.bits_0_11: page_offset == bits 0-11"
        );
        let p1 = u16::from(v.p1_index());
        assert!(
            p1 as u64 == (a >> 12) & 0x1ff && p1 < 512 && u64::from(v.p1_index()) == (a >> 12) & 0x1ff,
            "C04.VirtAddr_p1_index.bits_12_20: p1_index == bits 12-20"
        );
        let p2 = u16::from(v.p2_index());
        assert!(
            p2 as u64 == (a >> 21) & 0x1ff && p2 < 512,
            "C04.VirtAddr_p2_index.bits_21_29: p2_index == bits 21-29"
        );
        let p3 = u16::from(v.p3_index());
        assert!(
            p3 as u64 == (a >> 30) & 0x1ff && p3 < 512,
            "C04.VirtAddr_p3_index.bits_30_38: p3_index == bits 30-38"
        );
        let p4 = u16::from(v.p4_index());
        assert!(
            p4 as u64 == (a >> 39) & 0x1ff && p4 < 512,
            "C04.VirtAddr_p4_index.bits_39_47: p4_index == bits 39-47"
        );
        // the five fields and the sign extension determine the address (bijection, forward half)
        let rebuilt = sext48((p4 as u64) << 39 | (p3 as u64) << 30 | (p2 as u64) << 21 | (p1 as u64) << 12 | off as u64);
        assert!(
            rebuilt == a,
            "C04.VirtAddr_p4_index.bits_39_47: the four indices and the offset rebuild the address"
        );
    }

    fn any_level() -> (PageTableLevel, u32) {
        match kani::any::<u8>() {
            0 => (PageTableLevel::One, 12),
            1 => (PageTableLevel::Two, 21),
            2 => (PageTableLevel::Three, 30),
            _ => (PageTableLevel::Four, 39),
        }
    }

    //@ obligation C04 C04.VirtAddr_page_table_index.by_level
    //@ obligation C04 C04.Page_page_table_index.by_level
    #[kani::proof]
    fn c04_twin_page_table_index_by_level() {
        let (a, v) = any_virt();
        let (level, shift) = any_level();
        kani::cover!(true, "c04_twin_page_table_index_by_level: reachable");
        let i = u16::from(v.page_table_index(level));
        assert!(
            i as u64 == (a >> shift) & 0x1ff && i < 512,
            "C04.VirtAddr_page_table_index.by_level: index of level n == bits 12+9(n-1) .. 20+9(n-1)"
        );
        let page: Page<Size4KiB> = Page::containing_address(v);
        let j = u16::from(page.page_table_index(level));
        assert!(
            j == i,
            "C04.Page_page_table_index.by_level: a page reports the indices of its addresses"
        );
    }

    //@ obligation C04 C04.Page_p4_index.bits_39_47
    //@ obligation C04 C04.Page_p3_index.bits_30_38
    //@ obligation C04 C04.Page_p2_index.bits_21_29
    //@ obligation C04 C04.Page_p1_index.bits_12_20
    #[kani::proof]
    fn c04_twin_page_indices() {
        let (a, v) = any_virt();
        kani::cover!(true, "c04_twin_page_indices: reachable");
        let p4k: Page<Size4KiB> = Page::containing_address(v);
        let p2m: Page<Size2MiB> = Page::containing_address(v);
        let p1g: Page<Size1GiB> = Page::containing_address(v);
        let f4 = ((a >> 39) & 0x1ff) as u16;
        let f3 = ((a >> 30) & 0x1ff) as u16;
        let f2 = ((a >> 21) & 0x1ff) as u16;
        let f1 = ((a >> 12) & 0x1ff) as u16;
        assert!(
            u16::from(p4k.p4_index()) == f4 && u16::from(p2m.p4_index()) == f4 && u16::from(p1g.p4_index()) == f4,
            "C04.Page_p4_index.bits_39_47: pages of every size containing `a` report bits 39-47 of `a`"
        );
        assert!(
            u16::from(p4k.p3_index()) == f3 && u16::from(p2m.p3_index()) == f3 && u16::from(p1g.p3_index()) == f3,
            "C04.Page_p3_index.bits_30_38: pages of every size containing `a` report bits 30-38 of `a`"
        );
        assert!(
            u16::from(p4k.p2_index()) == f2 && u16::from(p2m.p2_index()) == f2,
            "C04.Page_p2_index.bits_21_29: 4 KiB and 2 MiB pages containing `a` report bits 21-29 of `a`"
        );
        assert!(
            u16::from(p4k.p1_index()) == f1,
            "C04.Page_p1_index.bits_12_20: the 4 KiB page containing `a` reports bits 12-20 of `a`"
        );
    }

    // ---------------------------------------------- C04 indices -> Page (inverse)

    /// start address, the four indices read back, for a 4 KiB page
    #[kani::requires(i4 < 512 && i3 < 512 && i2 < 512 && i1 < 512)]
    #[kani::ensures(|r: &(u64, u16, u16, u16, u16)| ob("C04.Page_from_page_table_indices.inverse_unique",
        r.0 == sext48((i4 as u64) << 39 | (i3 as u64) << 30 | (i2 as u64) << 21 | (i1 as u64) << 12)
        && (r.1, r.2, r.3, r.4) == (i4, i3, i2, i1)
        && (r.0 >> 39) & 0x1ff == i4 as u64 && (r.0 >> 30) & 0x1ff == i3 as u64
        && (r.0 >> 21) & 0x1ff == i2 as u64 && (r.0 >> 12) & 0x1ff == i1 as u64
        && r.0 & 0xfff == 0))]
    #[kani::ensures(|r: &(u64, u16, u16, u16, u16)| ob("C03.Page_from_page_table_indices.valid", canonical(r.0) && r.0 % 4096 == 0))]
    fn w_from_indices_4k(i4: u16, i3: u16, i2: u16, i1: u16) -> (u64, u16, u16, u16, u16) {
        let p = Page::from_page_table_indices(
            PageTableIndex::new(i4),
            PageTableIndex::new(i3),
            PageTableIndex::new(i2),
            PageTableIndex::new(i1),
        );
        (
            p.start_address().as_u64(),
            p.p4_index().into(),
            p.p3_index().into(),
            p.p2_index().into(),
            p.p1_index().into(),
        )
    }

    //@ obligation C04 C04.Page_from_page_table_indices.inverse_unique
    //@ obligation C03 C03.Page_from_page_table_indices.valid
    #[kani::proof_for_contract(w_from_indices_4k)]
    fn c04_twin_from_page_table_indices() {
        let _ = w_from_indices_4k(kani::any(), kani::any(), kani::any(), kani::any());
        kani::cover!(true, "c04_twin_from_page_table_indices: reachable");
    }

    #[kani::requires(i4 < 512 && i3 < 512 && i2 < 512)]
    #[kani::ensures(|r: &(u64, u16, u16, u16)| ob("C04.Page_from_page_table_indices_2mib.inverse_unique",
        r.0 == sext48((i4 as u64) << 39 | (i3 as u64) << 30 | (i2 as u64) << 21)
        && (r.1, r.2, r.3) == (i4, i3, i2)
        && (r.0 >> 39) & 0x1ff == i4 as u64 && (r.0 >> 30) & 0x1ff == i3 as u64 && (r.0 >> 21) & 0x1ff == i2 as u64
        && r.0 & 0x1f_ffff == 0))]
    #[kani::ensures(|r: &(u64, u16, u16, u16)| ob("C03.Page_from_page_table_indices_2mib.valid", canonical(r.0) && r.0 % 0x20_0000 == 0))]
    fn w_from_indices_2m(i4: u16, i3: u16, i2: u16) -> (u64, u16, u16, u16) {
        let p = Page::from_page_table_indices_2mib(
            PageTableIndex::new(i4),
            PageTableIndex::new(i3),
            PageTableIndex::new(i2),
        );
        (
            p.start_address().as_u64(),
            p.p4_index().into(),
            p.p3_index().into(),
            p.p2_index().into(),
        )
    }

    //@ obligation C04 C04.Page_from_page_table_indices_2mib.inverse_unique
    //@ obligation C03 C03.Page_from_page_table_indices_2mib.valid
    #[kani::proof_for_contract(w_from_indices_2m)]
    fn c04_twin_from_page_table_indices_2mib() {
        let _ = w_from_indices_2m(kani::any(), kani::any(), kani::any());
        kani::cover!(true, "c04_twin_from_page_table_indices_2mib: reachable");
    }

    #[kani::requires(i4 < 512 && i3 < 512)]
    #[kani::ensures(|r: &(u64, u16, u16)| ob("C04.Page_from_page_table_indices_1gib.inverse_unique",
        r.0 == sext48((i4 as u64) << 39 | (i3 as u64) << 30)
        && (r.1, r.2) == (i4, i3)
        && (r.0 >> 39) & 0x1ff == i4 as u64 && (r.0 >> 30) & 0x1ff == i3 as u64
        && r.0 & 0x3fff_ffff == 0))]
    #[kani::ensures(|r: &(u64, u16, u16)| ob("C03.Page_from_page_table_indices_1gib.valid", canonical(r.0) && r.0 % 0x4000_0000 == 0))]
    fn w_from_indices_1g(i4: u16, i3: u16) -> (u64, u16, u16) {
        let p = Page::from_page_table_indices_1gib(PageTableIndex::new(i4), PageTableIndex::new(i3));
        (p.start_address().as_u64(), p.p4_index().into(), p.p3_index().into())
    }

    //@ obligation C04 C04.Page_from_page_table_indices_1gib.inverse_unique
    //@ obligation C03 C03.Page_from_page_table_indices_1gib.valid
    #[kani::proof_for_contract(w_from_indices_1g)]
    fn c04_twin_from_page_table_indices_1gib() {
        let _ = w_from_indices_1g(kani::any(), kani::any());
        kani::cover!(true, "c04_twin_from_page_table_indices_1gib: reachable");
    }

    // Uniqueness clause of `inverse_unique`, as a twin as well: ANY canonical 4 KiB-aligned
    // address whose four index fields are (i4, i3, i2, i1) is the page's start address.
    //@ obligation C04 C04.Page_from_page_table_indices.inverse_unique
    #[kani::proof]
    fn c04_twin_from_page_table_indices_unique() {
        let b: u64 = kani::any();
        kani::assume(canonical(b) && b % 4096 == 0);
        kani::cover!(true, "c04_twin_from_page_table_indices_unique: reachable");
        let ix = |s: u32| PageTableIndex::new(((b >> s) & 0x1ff) as u16);
        let p = Page::from_page_table_indices(ix(39), ix(30), ix(21), ix(12));
        assert!(
            p.start_address().as_u64() == b,
            "C04.Page_from_page_table_indices.inverse_unique: the page built from the indices of a canonical aligned address starts at that address"
        );
    }

    // ------------------------------------------------------------- C06 align_*

    fn pow2(x: u64) -> bool {
        x != 0 && x & x.wrapping_sub(1) == 0
    }

    // greatest multiple of align that is <= addr: r <= addr < r + align and align | r
    // (these three clauses determine r uniquely). align = 1 << k for every k < 64.
    #[kani::requires(k < 64)]
    #[kani::ensures(|r: &u64| ob("C06.align_down.greatest_multiple",
        *r <= addr && addr - *r < (1u64 << k) && *r % (1u64 << k) == 0))]
    fn w_align_down(addr: u64, k: u32) -> u64 {
        align_down(addr, 1u64 << k)
    }

    //@ obligation C06 C06.align_down.greatest_multiple
    #[kani::proof_for_contract(w_align_down)]
    fn c06_twin_align_down() {
        let _ = w_align_down(kani::any(), kani::any());
        kani::cover!(true, "c06_twin_align_down: reachable");
    }

    //@ obligation C06 C06.align_down.greatest_multiple
    #[kani::proof]
    #[kani::should_panic]
    fn c06_twin_align_down_rejects_non_pow2() {
        let addr: u64 = kani::any();
        let align: u64 = kani::any();
        kani::assume(!pow2(align));
        kani::cover!(true, "c06_twin_align_down_rejects_non_pow2: reachable");
        let _ = align_down(addr, align);
        returned_on_invalid_input();
    }

    /// the least multiple of 2^k that is >= addr fits in a u64
    fn align_up_fits(addr: u64, k: u32) -> bool {
        let al = 1u128 << k;
        let a = addr as u128;
        let up = if a % al == 0 { a } else { a - a % al + al };
        up <= u64::MAX as u128
    }

    // least multiple of align that is >= addr: r - align < addr <= r and align | r.
    #[kani::requires(k < 64 && align_up_fits(addr, k))]
    #[kani::ensures(|r: &u64| ob("C06.align_up.least_multiple",
        *r >= addr && *r - addr < (1u64 << k) && *r % (1u64 << k) == 0))]
    fn w_align_up(addr: u64, k: u32) -> u64 {
        align_up(addr, 1u64 << k)
    }

    //@ obligation C06 C06.align_up.least_multiple
    #[kani::proof_for_contract(w_align_up)]
    fn c06_twin_align_up() {
        let _ = w_align_up(kani::any(), kani::any());
        kani::cover!(true, "c06_twin_align_up: reachable");
    }

    // panics on EVERY input whose rounded value does not fit, and on every non-power-of-two align
    //@ obligation C06 C06.align_up.least_multiple
    #[kani::proof]
    #[kani::should_panic]
    fn c06_twin_align_up_rejects_overflow() {
        let addr: u64 = kani::any();
        let k: u32 = kani::any();
        kani::assume(k < 64 && !align_up_fits(addr, k));
        kani::cover!(true, "c06_twin_align_up_rejects_overflow: reachable");
        let _ = align_up(addr, 1u64 << k);
        returned_on_invalid_input();
    }

    //@ obligation C06 C06.align_up.least_multiple
    #[kani::proof]
    #[kani::should_panic]
    fn c06_twin_align_up_rejects_non_pow2() {
        let addr: u64 = kani::any();
        let align: u64 = kani::any();
        kani::assume(!pow2(align));
        kani::cover!(true, "c06_twin_align_up_rejects_non_pow2: reachable");
        let _ = align_up(addr, align);
        returned_on_invalid_input();
    }
}
