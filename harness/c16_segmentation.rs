//@ include-into src/instructions/segmentation.rs
//
// C16: segment register wrappers (CS/SS/DS/ES/FS/GS get_reg / set_reg, the CS
// far-return reload, FS/GS read_base / write_base, GS::swap, Segment64::BASE)
// against the abstract machine.

#[cfg(kani)]
mod verif_c16_segmentation {
    use super::*;
    use crate::registers::model_specific::KernelGsBase;
    use crate::verif_hw::{self, field, Kind};

    const IA32_FS_BASE: u64 = 0xC000_0100;
    const IA32_GS_BASE: u64 = 0xC000_0101;

    fn any_vaddr() -> VirtAddr {
        // the image of new_truncate is the set of all canonical addresses
        VirtAddr::new_truncate(kani::any())
    }

    // ------------------------------------------------------------------- CS

    //@ obligation C16 C16.CS_get_reg.value_and_event
    #[kani::proof]
    fn c16_cs_get_reg() {
        verif_hw::reset_symbolic();
        let before = *verif_hw::m();
        kani::cover!(true, "c16_cs_get_reg: reachable");
        let r = CS::get_reg();
        let m = verif_hw::m();
        assert!(r.0 == before.cs, "C16.CS_get_reg.value_and_event: returns the CS selector");
        assert!(
            m.only_event_is(Kind::MovFromSeg, verif_hw::SEG_CS as u64, before.cs as u64, 0)
                && m.regs_same_except(&before, field::NONE),
            "C16.CS_get_reg.value_and_event: exactly one mov from cs, no register changes"
        );
    }

    /// CS cannot be loaded with mov: the wrapper pushes the selector and a
    /// return address and executes a far return (one asm block, modelled as
    /// the event SetCs).
    //@ obligation C16 C16.CS_set_reg.read_back
    #[kani::proof]
    fn c16_cs_set_reg_read_back() {
        verif_hw::reset_symbolic();
        let before = *verif_hw::m();
        let sel = SegmentSelector(kani::any());
        kani::cover!(true, "c16_cs_set_reg_read_back: reachable");
        unsafe { CS::set_reg(sel) };
        {
            let m = verif_hw::m();
            assert!(m.cs == sel.0, "C16.CS_set_reg.read_back: CS == selector");
            assert!(
                m.only_event_is(Kind::SetCs, sel.0 as u64, 0, 0) && m.block_seq == 1,
                "C16.CS_set_reg.read_back: exactly one far-return reload with the selector, in one asm block"
            );
            assert!(
                m.regs_same_except(&before, field::CS),
                "C16.CS_set_reg.read_back: no other register changes"
            );
        }
        assert!(CS::get_reg() == sel, "C16.CS_set_reg.read_back: get_reg returns what was set");
    }

    // ------------------------------------------------------------------- SS

    //@ obligation C16 C16.SS_get_reg.value_and_event
    #[kani::proof]
    fn c16_ss_get_reg() {
        verif_hw::reset_symbolic();
        let before = *verif_hw::m();
        kani::cover!(true, "c16_ss_get_reg: reachable");
        let r = SS::get_reg();
        let m = verif_hw::m();
        assert!(r.0 == before.ss, "C16.SS_get_reg.value_and_event: returns the SS selector");
        assert!(
            m.only_event_is(Kind::MovFromSeg, verif_hw::SEG_SS as u64, before.ss as u64, 0)
                && m.regs_same_except(&before, field::NONE),
            "C16.SS_get_reg.value_and_event: exactly one mov from ss, no register changes"
        );
    }

    //@ obligation C16 C16.SS_set_reg.read_back
    #[kani::proof]
    fn c16_ss_set_reg_read_back() {
        verif_hw::reset_symbolic();
        let before = *verif_hw::m();
        let sel = SegmentSelector(kani::any());
        kani::cover!(true, "c16_ss_set_reg_read_back: reachable");
        unsafe { SS::set_reg(sel) };
        {
            let m = verif_hw::m();
            assert!(m.ss == sel.0, "C16.SS_set_reg.read_back: SS == selector");
            assert!(
                m.only_event_is(Kind::MovToSeg, verif_hw::SEG_SS as u64, sel.0 as u64, 0),
                "C16.SS_set_reg.read_back: exactly one mov to ss with the selector"
            );
            assert!(
                m.regs_same_except(&before, field::SS),
                "C16.SS_set_reg.read_back: no other register changes (selector loads do not touch the 64-bit bases)"
            );
        }
        assert!(SS::get_reg() == sel, "C16.SS_set_reg.read_back: get_reg returns what was set");
    }

    // ------------------------------------------------------------------- DS

    //@ obligation C16 C16.DS_get_reg.value_and_event
    #[kani::proof]
    fn c16_ds_get_reg() {
        verif_hw::reset_symbolic();
        let before = *verif_hw::m();
        kani::cover!(true, "c16_ds_get_reg: reachable");
        let r = DS::get_reg();
        let m = verif_hw::m();
        assert!(r.0 == before.ds, "C16.DS_get_reg.value_and_event: returns the DS selector");
        assert!(
            m.only_event_is(Kind::MovFromSeg, verif_hw::SEG_DS as u64, before.ds as u64, 0)
                && m.regs_same_except(&before, field::NONE),
            "C16.DS_get_reg.value_and_event: exactly one mov from ds, no register changes"
        );
    }

    //@ obligation C16 C16.DS_set_reg.read_back
    #[kani::proof]
    fn c16_ds_set_reg_read_back() {
        verif_hw::reset_symbolic();
        let before = *verif_hw::m();
        let sel = SegmentSelector(kani::any());
        kani::cover!(true, "c16_ds_set_reg_read_back: reachable");
        unsafe { DS::set_reg(sel) };
        {
            let m = verif_hw::m();
            assert!(m.ds == sel.0, "C16.DS_set_reg.read_back: DS == selector");
            assert!(
                m.only_event_is(Kind::MovToSeg, verif_hw::SEG_DS as u64, sel.0 as u64, 0),
                "C16.DS_set_reg.read_back: exactly one mov to ds with the selector"
            );
            assert!(
                m.regs_same_except(&before, field::DS),
                "C16.DS_set_reg.read_back: no other register changes (selector loads do not touch the 64-bit bases)"
            );
        }
        assert!(DS::get_reg() == sel, "C16.DS_set_reg.read_back: get_reg returns what was set");
    }

    // ------------------------------------------------------------------- ES

    //@ obligation C16 C16.ES_get_reg.value_and_event
    #[kani::proof]
    fn c16_es_get_reg() {
        verif_hw::reset_symbolic();
        let before = *verif_hw::m();
        kani::cover!(true, "c16_es_get_reg: reachable");
        let r = ES::get_reg();
        let m = verif_hw::m();
        assert!(r.0 == before.es, "C16.ES_get_reg.value_and_event: returns the ES selector");
        assert!(
            m.only_event_is(Kind::MovFromSeg, verif_hw::SEG_ES as u64, before.es as u64, 0)
                && m.regs_same_except(&before, field::NONE),
            "C16.ES_get_reg.value_and_event: exactly one mov from es, no register changes"
        );
    }

    //@ obligation C16 C16.ES_set_reg.read_back
    #[kani::proof]
    fn c16_es_set_reg_read_back() {
        verif_hw::reset_symbolic();
        let before = *verif_hw::m();
        let sel = SegmentSelector(kani::any());
        kani::cover!(true, "c16_es_set_reg_read_back: reachable");
        unsafe { ES::set_reg(sel) };
        {
            let m = verif_hw::m();
            assert!(m.es == sel.0, "C16.ES_set_reg.read_back: ES == selector");
            assert!(
                m.only_event_is(Kind::MovToSeg, verif_hw::SEG_ES as u64, sel.0 as u64, 0),
                "C16.ES_set_reg.read_back: exactly one mov to es with the selector"
            );
            assert!(
                m.regs_same_except(&before, field::ES),
                "C16.ES_set_reg.read_back: no other register changes (selector loads do not touch the 64-bit bases)"
            );
        }
        assert!(ES::get_reg() == sel, "C16.ES_set_reg.read_back: get_reg returns what was set");
    }

    // ------------------------------------------------------------------- FS

    //@ obligation C16 C16.FS_get_reg.value_and_event
    #[kani::proof]
    fn c16_fs_get_reg() {
        verif_hw::reset_symbolic();
        let before = *verif_hw::m();
        kani::cover!(true, "c16_fs_get_reg: reachable");
        let r = FS::get_reg();
        let m = verif_hw::m();
        assert!(r.0 == before.fs, "C16.FS_get_reg.value_and_event: returns the FS selector");
        assert!(
            m.only_event_is(Kind::MovFromSeg, verif_hw::SEG_FS as u64, before.fs as u64, 0)
                && m.regs_same_except(&before, field::NONE),
            "C16.FS_get_reg.value_and_event: exactly one mov from fs, no register changes"
        );
    }

    //@ obligation C16 C16.FS_set_reg.read_back
    #[kani::proof]
    fn c16_fs_set_reg_read_back() {
        verif_hw::reset_symbolic();
        let before = *verif_hw::m();
        let sel = SegmentSelector(kani::any());
        kani::cover!(true, "c16_fs_set_reg_read_back: reachable");
        unsafe { FS::set_reg(sel) };
        {
            let m = verif_hw::m();
            assert!(m.fs == sel.0, "C16.FS_set_reg.read_back: FS == selector");
            assert!(
                m.only_event_is(Kind::MovToSeg, verif_hw::SEG_FS as u64, sel.0 as u64, 0),
                "C16.FS_set_reg.read_back: exactly one mov to fs with the selector"
            );
            assert!(
                m.regs_same_except(&before, field::FS),
                "C16.FS_set_reg.read_back: no other register changes (selector loads do not touch the 64-bit bases)"
            );
        }
        assert!(FS::get_reg() == sel, "C16.FS_set_reg.read_back: get_reg returns what was set");
    }

    // ------------------------------------------------------------------- GS

    //@ obligation C16 C16.GS_get_reg.value_and_event
    #[kani::proof]
    fn c16_gs_get_reg() {
        verif_hw::reset_symbolic();
        let before = *verif_hw::m();
        kani::cover!(true, "c16_gs_get_reg: reachable");
        let r = GS::get_reg();
        let m = verif_hw::m();
        assert!(r.0 == before.gs, "C16.GS_get_reg.value_and_event: returns the GS selector");
        assert!(
            m.only_event_is(Kind::MovFromSeg, verif_hw::SEG_GS as u64, before.gs as u64, 0)
                && m.regs_same_except(&before, field::NONE),
            "C16.GS_get_reg.value_and_event: exactly one mov from gs, no register changes"
        );
    }

    //@ obligation C16 C16.GS_set_reg.read_back
    #[kani::proof]
    fn c16_gs_set_reg_read_back() {
        verif_hw::reset_symbolic();
        let before = *verif_hw::m();
        let sel = SegmentSelector(kani::any());
        kani::cover!(true, "c16_gs_set_reg_read_back: reachable");
        unsafe { GS::set_reg(sel) };
        {
            let m = verif_hw::m();
            assert!(m.gs == sel.0, "C16.GS_set_reg.read_back: GS == selector");
            assert!(
                m.only_event_is(Kind::MovToSeg, verif_hw::SEG_GS as u64, sel.0 as u64, 0),
                "C16.GS_set_reg.read_back: exactly one mov to gs with the selector"
            );
            assert!(
                m.regs_same_except(&before, field::GS),
                "C16.GS_set_reg.read_back: no other register changes (selector loads do not touch the 64-bit bases)"
            );
        }
        assert!(GS::get_reg() == sel, "C16.GS_set_reg.read_back: get_reg returns what was set");
    }

    // -------------------------------------------------------------- FS base

    /// read_base wraps the value with VirtAddr::new_unsafe: no check, all 64
    /// bits are returned whatever the register holds.
    //@ obligation C16 C16.FS_read_base.value_and_event
    #[kani::proof]
    fn c16_fs_read_base() {
        verif_hw::reset_symbolic();
        let before = *verif_hw::m();
        let old = before.fs_base;
        kani::cover!(true, "c16_fs_read_base: reachable");
        let r = FS::read_base();
        let m = verif_hw::m();
        assert!(r.as_u64() == old, "C16.FS_read_base.value_and_event: returns FS.base, all 64 bits");
        assert!(
            m.only_event_is(Kind::RdFsBase, old, 0, 0) && m.regs_same_except(&before, field::NONE),
            "C16.FS_read_base.value_and_event: exactly one rdfsbase, no register changes"
        );
    }

    //@ obligation C16 C16.FS_write_base.read_back
    #[kani::proof]
    fn c16_fs_write_base_read_back() {
        verif_hw::reset_symbolic();
        let before = *verif_hw::m();
        let a = any_vaddr();
        kani::cover!(true, "c16_fs_write_base_read_back: reachable");
        unsafe { FS::write_base(a) };
        {
            let m = verif_hw::m();
            assert!(m.fs_base == a.as_u64(), "C16.FS_write_base.read_back: FS.base == address");
            assert!(
                m.only_event_is(Kind::WrFsBase, a.as_u64(), 0, 0),
                "C16.FS_write_base.read_back: exactly one wrfsbase with the address"
            );
            assert!(
                m.regs_same_except(&before, field::FS_BASE),
                "C16.FS_write_base.read_back: no other register changes (the selector stays)"
            );
        }
        assert!(FS::read_base() == a, "C16.FS_write_base.read_back: read_base returns what was written");
    }

    /// Segment64::BASE names the MSR that aliases the same base register.
    //@ obligation C16 C16.FS_BASE.msr_aliases_base
    #[kani::proof]
    fn c16_fs_base_msr_aliases_base() {
        verif_hw::reset_symbolic();
        let before = *verif_hw::m();
        let old = before.fs_base;
        kani::cover!(true, "c16_fs_base_msr_aliases_base: reachable");
        let r = unsafe { <FS as Segment64>::BASE.read() };
        let m = verif_hw::m();
        assert!(r == old, "C16.FS_BASE.msr_aliases_base: reading the MSR <FS as Segment64>::BASE returns FS.base");
        assert!(
            m.only_event_is(Kind::Rdmsr, IA32_FS_BASE, old & 0xffff_ffff, old >> 32)
                && m.regs_same_except(&before, field::NONE),
            "C16.FS_BASE.msr_aliases_base: one rdmsr of the architectural index, no register changes"
        );
    }

    // -------------------------------------------------------------- GS base

    /// read_base wraps the value with VirtAddr::new_unsafe: no check, all 64
    /// bits are returned whatever the register holds.
    //@ obligation C16 C16.GS_read_base.value_and_event
    #[kani::proof]
    fn c16_gs_read_base() {
        verif_hw::reset_symbolic();
        let before = *verif_hw::m();
        let old = before.gs_base;
        kani::cover!(true, "c16_gs_read_base: reachable");
        let r = GS::read_base();
        let m = verif_hw::m();
        assert!(r.as_u64() == old, "C16.GS_read_base.value_and_event: returns GS.base, all 64 bits");
        assert!(
            m.only_event_is(Kind::RdGsBase, old, 0, 0) && m.regs_same_except(&before, field::NONE),
            "C16.GS_read_base.value_and_event: exactly one rdgsbase, no register changes"
        );
    }

    //@ obligation C16 C16.GS_write_base.read_back
    #[kani::proof]
    fn c16_gs_write_base_read_back() {
        verif_hw::reset_symbolic();
        let before = *verif_hw::m();
        let a = any_vaddr();
        kani::cover!(true, "c16_gs_write_base_read_back: reachable");
        unsafe { GS::write_base(a) };
        {
            let m = verif_hw::m();
            assert!(m.gs_base == a.as_u64(), "C16.GS_write_base.read_back: GS.base == address");
            assert!(
                m.only_event_is(Kind::WrGsBase, a.as_u64(), 0, 0),
                "C16.GS_write_base.read_back: exactly one wrgsbase with the address"
            );
            assert!(
                m.regs_same_except(&before, field::GS_BASE),
                "C16.GS_write_base.read_back: no other register changes (the selector stays)"
            );
        }
        assert!(GS::read_base() == a, "C16.GS_write_base.read_back: read_base returns what was written");
    }

    /// Segment64::BASE names the MSR that aliases the same base register.
    //@ obligation C16 C16.GS_BASE.msr_aliases_base
    #[kani::proof]
    fn c16_gs_base_msr_aliases_base() {
        verif_hw::reset_symbolic();
        let before = *verif_hw::m();
        let old = before.gs_base;
        kani::cover!(true, "c16_gs_base_msr_aliases_base: reachable");
        let r = unsafe { <GS as Segment64>::BASE.read() };
        let m = verif_hw::m();
        assert!(r == old, "C16.GS_BASE.msr_aliases_base: reading the MSR <GS as Segment64>::BASE returns GS.base");
        assert!(
            m.only_event_is(Kind::Rdmsr, IA32_GS_BASE, old & 0xffff_ffff, old >> 32)
                && m.regs_same_except(&before, field::NONE),
            "C16.GS_BASE.msr_aliases_base: one rdmsr of the architectural index, no register changes"
        );
    }

    // ----------------------------------------------------------------- swap

    //@ obligation C16 C16.GS_swap.exchanges_bases
    #[kani::proof]
    fn c16_gs_swap_exchanges_bases() {
        verif_hw::reset_symbolic();
        let before = *verif_hw::m();
        kani::cover!(true, "c16_gs_swap_exchanges_bases: reachable");
        unsafe { GS::swap() };
        let m = verif_hw::m();
        assert!(
            m.gs_base == before.kernel_gs_base && m.kernel_gs_base == before.gs_base,
            "C16.GS_swap.exchanges_bases: GS.base and KernelGSbase are exchanged, all 64 bits"
        );
        assert!(
            m.only_event_is(Kind::Swapgs, 0, 0, 0),
            "C16.GS_swap.exchanges_bases: exactly one swapgs"
        );
        assert!(
            m.regs_same_except(&before, field::GS_BASE | field::KERNEL_GS_BASE),
            "C16.GS_swap.exchanges_bases: no other register changes (the GS selector stays)"
        );
    }

    /// The typed views agree: after swap, GS::read_base is the old
    /// KernelGsBase::read and vice versa (canonical prior contents, since
    /// KernelGsBase::read goes through VirtAddr::new).
    //@ obligation C16 C16.GS_swap.typed_views_agree
    #[kani::proof]
    fn c16_gs_swap_typed_views_agree() {
        verif_hw::reset_symbolic();
        let g = any_vaddr();
        let k = any_vaddr();
        verif_hw::m().gs_base = g.as_u64();
        verif_hw::m().kernel_gs_base = k.as_u64();
        kani::cover!(true, "c16_gs_swap_typed_views_agree: reachable");
        unsafe { GS::swap() };
        assert!(
            GS::read_base() == k && KernelGsBase::read() == g,
            "C16.GS_swap.typed_views_agree: GS::read_base / KernelGsBase::read see the exchanged values"
        );
    }
}
