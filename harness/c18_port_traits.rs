//@ include-into src/instructions/port.rs
// C18: "Port objects of EVERY access kind compare equal exactly when their port numbers are equal and clones refer to
// the same port." The trait PRESENCE is probed with inherent-method-over-trait-fallback resolution, so that a change which
// removes `Clone`/`PartialEq` from one access kind fails an assertion instead of breaking the build of the harness.
#[cfg(kani)]
mod verif_c18_port_traits {
    use super::*;

    struct Probe<T>(core::marker::PhantomData<T>);
    trait Fallback {
        fn has_eq(&self) -> bool { false }
        fn has_clone(&self) -> bool { false }
    }
    impl<T> Fallback for Probe<T> {}
    impl<T: PartialEq> Probe<T> {
        fn has_eq(&self) -> bool { true }
    }
    impl<T: Clone> Probe<T> {
        fn has_clone(&self) -> bool { true }
    }
    fn probe<T>() -> Probe<T> { Probe(core::marker::PhantomData) }

    //@ obligation C18 C18.PortGeneric_eq_clone.every_access_kind_and_width_has_eq_and_clone
    #[kani::proof]
    fn c18_port_traits_all_kinds() {
        kani::cover!(true, "c18_port_traits_all_kinds: reachable");
        let ok = probe::<Port<u8>>().has_eq() && probe::<Port<u16>>().has_eq() && probe::<Port<u32>>().has_eq()
            && probe::<PortReadOnly<u8>>().has_eq() && probe::<PortReadOnly<u16>>().has_eq() && probe::<PortReadOnly<u32>>().has_eq()
            && probe::<PortWriteOnly<u8>>().has_eq() && probe::<PortWriteOnly<u16>>().has_eq() && probe::<PortWriteOnly<u32>>().has_eq();
        assert!(ok, "C18.PortGeneric_eq_clone.every_access_kind_and_width_has_eq_and_clone: PartialEq for all nine port types");
        let okc = probe::<Port<u8>>().has_clone() && probe::<Port<u16>>().has_clone() && probe::<Port<u32>>().has_clone()
            && probe::<PortReadOnly<u8>>().has_clone() && probe::<PortReadOnly<u16>>().has_clone() && probe::<PortReadOnly<u32>>().has_clone()
            && probe::<PortWriteOnly<u8>>().has_clone() && probe::<PortWriteOnly<u16>>().has_clone() && probe::<PortWriteOnly<u32>>().has_clone();
        assert!(okc, "C18.PortGeneric_eq_clone.every_access_kind_and_width_has_eq_and_clone: Clone for all nine port types");
    }
}
