//@ include-into src/structures/paging/page_table.rs
//
// C08, part 1: `PageTableEntry` stores a 4 KiB-aligned physical address and a
// flag set independently.
//
// Every harness is loop-free and full-domain: the PRIOR raw word of the entry
// is an unconstrained u64 (private field `entry`, reachable because this file
// is included into the module), the address ranges over all 4 KiB-aligned
// values below 2^52 and the flags over all subsets of bits 0-11 and 52-63 (the
// property's quantifier, `DOMAIN`). Each mutator is specified as a function
// of the prior raw word, so "all sequences of set_addr / set_frame /
// set_flags / set_unused" follow by induction on the sequence with the
// trivial invariant "the entry holds some u64": one step from an arbitrary
// word is all there is to prove.
//
// All masks are literals written from the SDM (vol. 3A 4.5, figure 4-11:
// bits 12..51 physical address, bit 0 P), never the crate's constants.
//
// `flags()` also reports bit 12 of the raw word as `PAT_HUGE_PAGE`. Bit 12 is
// an ADDRESS bit of a 4 KiB entry and lies outside the property's flag
// quantifier; the read-back clauses therefore compare under `& DOMAIN` and a
// separate clause pins down that bit 12 is the only extra bit ever reported.
#[cfg(kani)]
#[allow(unused_imports, clippy::all)]
mod verif_c08_entries {
    use super::*;

    /// bits 12..51
    const ADDR_MASK: u64 = 0x000f_ffff_ffff_f000;
    /// bits 0..11 and 52..63: the flag domain of the property
    const DOMAIN: u64 = 0xfff0_0000_0000_0fff;
    /// bit 12: reported by `flags()` as PAT_HUGE_PAGE, part of the address of a 4 KiB entry
    const BIT12: u64 = 1 << 12;

    /// Tags a contract clause with its obligation name (identity on `c`).
    fn ob(_name: &'static str, c: bool) -> bool {
        c
    }

    /// "the call returned although the input is invalid": see lib/C19_NOTES.md.
    #[inline(never)]
    fn returned_on_invalid_input() {
        unsafe { core::hint::unreachable_unchecked() }
    }

    fn entry_of(raw: u64) -> PageTableEntry {
        PageTableEntry { entry: raw }
    }

    fn valid_addr(a: u64) -> bool {
        a < (1u64 << 52) && a & 0xfff == 0
    }

    fn valid_flag_bits(x: u64) -> bool {
        x & !DOMAIN == 0
    }

    // ------------------------------------------------------------- the flag type

    // The flag type can carry every subset of the domain unchanged; without
    // this "stores exactly both" below would be about fewer flag sets than the
    // property quantifies over.
    #[kani::requires(valid_flag_bits(x))]
    #[kani::ensures(|r: &u64| ob("C08.PageTableFlags_from_bits_truncate.carries_every_domain_bit", *r == x))]
    fn w_flags_roundtrip(x: u64) -> u64 {
        PageTableFlags::from_bits_truncate(x).bits()
    }

    //@ obligation C08 C08.PageTableFlags_from_bits_truncate.carries_every_domain_bit
    #[kani::proof_for_contract(w_flags_roundtrip)]
    fn c08_flags_carry_every_domain_bit() {
        let x: u64 = kani::any();
        let _ = w_flags_roundtrip(x);
        kani::cover!(true, "c08_flags_carry_every_domain_bit: reachable");
    }

    // --------------------------------------------------------------- new / unused

    #[kani::ensures(|r: &u64| ob("C08.PageTableEntry_new.zero", *r == 0))]
    fn w_new() -> u64 {
        PageTableEntry::new().entry
    }

    //@ obligation C08 C08.PageTableEntry_new.zero
    #[kani::proof_for_contract(w_new)]
    fn c08_entry_new_zero() {
        let _ = w_new();
        kani::cover!(true, "c08_entry_new_zero: reachable");
    }

    #[kani::ensures(|r: &u64| ob("C08.PageTableEntry_default.zero", *r == 0))]
    fn w_default() -> u64 {
        <PageTableEntry as Default>::default().entry
    }

    //@ obligation C08 C08.PageTableEntry_default.zero
    #[kani::proof_for_contract(w_default)]
    fn c08_entry_default_zero() {
        let _ = w_default();
        kani::cover!(true, "c08_entry_default_zero: reachable");
    }

    #[kani::ensures(|r: &bool| ob("C08.PageTableEntry_is_unused.iff_all_zero", *r == (raw == 0)))]
    fn w_is_unused(raw: u64) -> bool {
        entry_of(raw).is_unused()
    }

    //@ obligation C08 C08.PageTableEntry_is_unused.iff_all_zero
    #[kani::proof_for_contract(w_is_unused)]
    fn c08_entry_is_unused_iff_zero() {
        let raw: u64 = kani::any();
        let _ = w_is_unused(raw);
        kani::cover!(true, "c08_entry_is_unused_iff_zero: reachable");
    }

    #[kani::ensures(|r: &u64| ob("C08.PageTableEntry_set_unused.zeroes", *r == 0))]
    fn w_set_unused(raw: u64) -> u64 {
        let mut e = entry_of(raw);
        e.set_unused();
        e.entry
    }

    //@ obligation C08 C08.PageTableEntry_set_unused.zeroes
    #[kani::proof_for_contract(w_set_unused)]
    fn c08_entry_set_unused_zeroes() {
        let raw: u64 = kani::any();
        let _ = w_set_unused(raw);
        kani::cover!(true, "c08_entry_set_unused_zeroes: reachable");
    }

    // ------------------------------------------------------------------- readers

    #[kani::ensures(|r: &u64| ob("C08.PageTableEntry_addr.bits_12_51_of_raw", *r == raw & ADDR_MASK))]
    #[kani::ensures(|r: &u64| ob("C03.PageTableEntry_addr.valid", *r < (1u64 << 52)))]
    fn w_addr(raw: u64) -> u64 {
        entry_of(raw).addr().as_u64()
    }

    //@ obligation C08 C08.PageTableEntry_addr.bits_12_51_of_raw
    //@ obligation C03 C03.PageTableEntry_addr.valid
    #[kani::proof_for_contract(w_addr)]
    fn c08_entry_addr_masks_raw() {
        let raw: u64 = kani::any();
        let _ = w_addr(raw);
        kani::cover!(true, "c08_entry_addr_masks_raw: reachable");
    }

    #[kani::ensures(|r: &u64| ob("C08.PageTableEntry_flags.domain_bits_of_raw", *r & DOMAIN == raw & DOMAIN))]
    #[kani::ensures(|r: &u64| ob("C08.PageTableEntry_flags.only_extra_bit_is_bit12", *r & !DOMAIN == raw & BIT12))]
    fn w_flags(raw: u64) -> u64 {
        entry_of(raw).flags().bits()
    }

    //@ obligation C08 C08.PageTableEntry_flags.domain_bits_of_raw
    //@ obligation C08 C08.PageTableEntry_flags.only_extra_bit_is_bit12
    #[kani::proof_for_contract(w_flags)]
    fn c08_entry_flags_reads_domain() {
        let raw: u64 = kani::any();
        let _ = w_flags(raw);
        kani::cover!(true, "c08_entry_flags_reads_domain: reachable");
    }

    /// `Some(start address)` for `Ok(frame)`, `None` for `Err(FrameNotPresent)`.
    #[kani::ensures(|r: &Option<u64>| ob("C08.PageTableEntry_frame.ok_iff_present", r.is_some() == (raw & 1 == 1)))]
    #[kani::ensures(|r: &Option<u64>| ob("C08.PageTableEntry_frame.frame_of_bits_12_51", r.is_none() || *r == Some(raw & ADDR_MASK)))]
    fn w_frame(raw: u64) -> Option<u64> {
        match entry_of(raw).frame() {
            Ok(f) => Some(f.start_address().as_u64()),
            Err(FrameError::FrameNotPresent) => None,
            #[allow(deprecated)]
            Err(FrameError::HugeFrame) => {
                // never returned according to the statement ("yields a frame exactly when present")
                returned_on_invalid_input();
                None
            }
        }
    }

    //@ obligation C08 C08.PageTableEntry_frame.ok_iff_present
    //@ obligation C08 C08.PageTableEntry_frame.frame_of_bits_12_51
    #[kani::proof_for_contract(w_frame)]
    fn c08_entry_frame_iff_present() {
        let raw: u64 = kani::any();
        let _ = w_frame(raw);
        kani::cover!(true, "c08_entry_frame_iff_present: reachable");
    }

    // The frame is the one CONTAINING addr() (statement of the task), said through the public API.
    //@ obligation C08 C08.PageTableEntry_frame.contains_addr
    #[kani::proof]
    fn c08_entry_frame_contains_addr() {
        let raw: u64 = kani::any();
        kani::assume(raw & 1 == 1);
        kani::cover!(true, "c08_entry_frame_contains_addr: reachable");
        let e = entry_of(raw);
        let f = e.frame();
        assert!(f.is_ok(), "C08.PageTableEntry_frame.contains_addr: present entry yields a frame");
        let f = f.unwrap();
        let a = e.addr().as_u64();
        let s = f.start_address().as_u64();
        assert!(
            s % 4096 == 0 && s <= a && a - s < 4096,
            "C08.PageTableEntry_frame.contains_addr: frame start is 4 KiB aligned and start <= addr() < start + 4096"
        );
    }

    // ------------------------------------------------------------------ mutators

    #[kani::requires(valid_addr(a) && valid_flag_bits(x))]
    #[kani::ensures(|r: &u64| ob("C08.PageTableEntry_set_addr.stores_exactly_addr_and_flags", *r == a | x))]
    fn w_set_addr(prior: u64, a: u64, x: u64) -> u64 {
        let mut e = entry_of(prior);
        e.set_addr(PhysAddr::new(a), PageTableFlags::from_bits_truncate(x));
        e.entry
    }

    //@ obligation C08 C08.PageTableEntry_set_addr.stores_exactly_addr_and_flags
    //@ obligation C08 C08.PageTableEntry_set_addr.returns_if_aligned
    #[kani::proof_for_contract(w_set_addr)]
    fn c08_entry_set_addr_stores_both() {
        let (prior, a, x): (u64, u64, u64) = (kani::any(), kani::any(), kani::any());
        let _ = w_set_addr(prior, a, x);
        kani::cover!(true, "c08_entry_set_addr_stores_both: reachable");
    }

    // "set_addr panics iff the address is not 4 KiB aligned": the harness above
    // proves "aligned => returns"; this one proves "not aligned => panics" for
    // EVERY unaligned valid physical address, prior word and flag set.
    //@ obligation C08 C08.PageTableEntry_set_addr.panics_if_unaligned
    #[kani::proof]
    #[kani::should_panic]
    fn c08_entry_set_addr_rejects_unaligned() {
        let (prior, a, x): (u64, u64, u64) = (kani::any(), kani::any(), kani::any());
        kani::assume(a < (1u64 << 52) && a & 0xfff != 0);
        kani::assume(valid_flag_bits(x));
        let addr = PhysAddr::new(a);
        let flags = PageTableFlags::from_bits_truncate(x);
        let mut e = entry_of(prior);
        kani::cover!(true, "c08_entry_set_addr_rejects_unaligned: reachable");
        e.set_addr(addr, flags);
        returned_on_invalid_input();
    }

    #[kani::requires(valid_addr(a) && valid_flag_bits(x))]
    #[kani::ensures(|r: &u64| ob("C08.PageTableEntry_set_frame.stores_exactly_addr_and_flags", *r == a | x))]
    fn w_set_frame(prior: u64, a: u64, x: u64) -> u64 {
        let mut e = entry_of(prior);
        let frame: PhysFrame<Size4KiB> = PhysFrame::from_start_address(PhysAddr::new(a)).unwrap();
        e.set_frame(frame, PageTableFlags::from_bits_truncate(x));
        e.entry
    }

    //@ obligation C08 C08.PageTableEntry_set_frame.stores_exactly_addr_and_flags
    #[kani::proof_for_contract(w_set_frame)]
    fn c08_entry_set_frame_stores_both() {
        let (prior, a, x): (u64, u64, u64) = (kani::any(), kani::any(), kani::any());
        let _ = w_set_frame(prior, a, x);
        kani::cover!(true, "c08_entry_set_frame_stores_both: reachable");
    }

    #[kani::requires(valid_flag_bits(x))]
    #[kani::ensures(|r: &u64| ob("C08.PageTableEntry_set_flags.keeps_address_bits", *r & ADDR_MASK == prior & ADDR_MASK))]
    #[kani::ensures(|r: &u64| ob("C08.PageTableEntry_set_flags.sets_flag_bits_exactly", *r & !ADDR_MASK == x))]
    fn w_set_flags(prior: u64, x: u64) -> u64 {
        let mut e = entry_of(prior);
        e.set_flags(PageTableFlags::from_bits_truncate(x));
        e.entry
    }

    //@ obligation C08 C08.PageTableEntry_set_flags.keeps_address_bits
    //@ obligation C08 C08.PageTableEntry_set_flags.sets_flag_bits_exactly
    #[kani::proof_for_contract(w_set_flags)]
    fn c08_entry_set_flags_keeps_addr() {
        let (prior, x): (u64, u64) = (kani::any(), kani::any());
        let _ = w_set_flags(prior, x);
        kani::cover!(true, "c08_entry_set_flags_keeps_addr: reachable");
    }

    // ---------------------------------------------- read-back through the getters

    // "reading returns what was stored", entirely through the public API:
    // set_addr(a, f) then addr() == a, flags() == f on the domain, then
    // set_flags(g): addr() still a, flags() == g on the domain.
    //@ obligation C08 C08.PageTableEntry_roundtrip.set_addr_then_read
    //@ obligation C08 C08.PageTableEntry_roundtrip.set_flags_leaves_addr
    #[kani::proof]
    fn c08_entry_roundtrip_public_api() {
        let (prior, a, x, y): (u64, u64, u64, u64) = (kani::any(), kani::any(), kani::any(), kani::any());
        kani::assume(valid_addr(a) && valid_flag_bits(x) && valid_flag_bits(y));
        kani::cover!(true, "c08_entry_roundtrip_public_api: reachable");
        let mut e = entry_of(prior);
        e.set_addr(PhysAddr::new(a), PageTableFlags::from_bits_truncate(x));
        assert!(
            e.addr().as_u64() == a,
            "C08.PageTableEntry_roundtrip.set_addr_then_read: addr() returns the stored address"
        );
        assert!(
            e.flags().bits() & DOMAIN == x,
            "C08.PageTableEntry_roundtrip.set_addr_then_read: flags() returns the stored flags (on bits 0-11, 52-63)"
        );
        assert!(
            e.is_unused() == (a == 0 && x == 0),
            "C08.PageTableEntry_roundtrip.set_addr_then_read: unused iff address and flags are both zero"
        );
        e.set_flags(PageTableFlags::from_bits_truncate(y));
        assert!(
            e.addr().as_u64() == a,
            "C08.PageTableEntry_roundtrip.set_flags_leaves_addr: addr() unchanged by set_flags"
        );
        assert!(
            e.flags().bits() & DOMAIN == y,
            "C08.PageTableEntry_roundtrip.set_flags_leaves_addr: flags() returns the new flags"
        );
        match e.frame() {
            Ok(f) => assert!(
                y & 1 == 1 && f.start_address().as_u64() == a,
                "C08.PageTableEntry_roundtrip.set_flags_leaves_addr: frame() is the stored frame when PRESENT"
            ),
            Err(_) => assert!(
                y & 1 == 0,
                "C08.PageTableEntry_roundtrip.set_flags_leaves_addr: frame() fails only without PRESENT"
            ),
        }
    }

    // Clone copies the raw word.
    #[kani::ensures(|r: &u64| ob("C08.PageTableEntry_clone.same_word", *r == raw))]
    fn w_clone(raw: u64) -> u64 {
        entry_of(raw).clone().entry
    }

    //@ obligation C08 C08.PageTableEntry_clone.same_word
    #[kani::proof_for_contract(w_clone)]
    fn c08_entry_clone_same_word() {
        let raw: u64 = kani::any();
        let _ = w_clone(raw);
        kani::cover!(true, "c08_entry_clone_same_word: reachable");
    }
}
