//@ include-into src/structures/paging/mapper/mapped_page_table.rs
//
// C01 / C02 / C09 step harnesses for the READ side of MappedPageTable<P> over the 7-table pool of
// c01_pool.rs: `translate_page` (4 KiB, 2 MiB, 1 GiB), `Translate::translate` and
// `Translate::translate_addr`, in an ARBITRARY well-formed state of the given shape.
// They must agree with the independent hardware-style walk of the raw table memory (C01), report
// the documented error (C02) and write nothing (C09). Because they hold in every well-formed
// state they hold after every step of every history (induction, within the stated bounds).
//
// `translate` / `translate_addr` are asked about an ARBITRARY canonical address (all four
// page-table indices and the offset symbolic) and about an address inside the target page.

#[cfg(kani)]
mod verif_c01_step_read {
    use super::verif_c01_pool::*;
    use super::*;

    const OK: u8 = 0;
    const E_NOT_MAPPED: u8 = 1;
    const E_PARENT_HUGE: u8 = 2;
    /// the leaf slot holds a table pointer: some Err, the documentation does not say which
    const E_NO_SUCH_MAPPING: u8 = 3;
    /// the leaf slot holds P | PS with a frame address that is not aligned to the page size
    const E_INVALID_FRAME: u8 = 4;

    fn model_outcome(sh: Shape, pre: &Pre, l: usize) -> u8 {
        match model_reach(sh, pre, l) {
            NOT_MAPPED_ABOVE => E_NOT_MAPPED,
            HUGE_ABOVE => E_PARENT_HUGE,
            _ => match entry_kind(sh, pre, l) {
                E_ABSENT => E_NOT_MAPPED,
                E_LEAF => OK,
                E_MISALIGNED => E_INVALID_FRAME,
                _ => E_NO_SUCH_MAPPING,
            },
        }
    }

    macro_rules! ob {
        ($prop:literal, $op:literal, $sz:literal, $shape:literal, $clause:literal) => {
            concat!($prop, ".", $op, "_", $sz, ".shape_", $shape, ".", $clause)
        };
    }

    macro_rules! translate_page_step {
        ($S:ty, $sz:literal, $shape:literal, $SH:expr, $ix:expr) => {{
            let ix: Idx = $ix;
            let sh: Shape = $SH;
            mk_pool!(pool);
            let pre = build_path(&pool, &ix, sh);
            add_background(&pool, &ix);
            let page: Page<$S> = page_of::<$S>(&ix);
            let (inside, jx) = any_inside::<$S>(&ix);
            let w_in = hw_walk_ix(&pool, &jx, inside);
            kani::assume(w_in.kind != MALFORMED);
            let (fk, fs, f_pre) = any_slot(&pool);
            const LV: usize = <$S as Sz>::L;

            let mapper = unsafe { MappedPageTable::new(&mut *pool.p[0], pool) };
            let res = Mapper::<$S>::translate_page(&mapper, page);

            let outcome = model_outcome(sh, &pre, LV);
            // ---- every clause is evaluated first, then each is checked on its own path (each!)
            let ok = res.is_ok();
            let bogus = ok && outcome == E_NO_SUCH_MAPPING;
            let c_nosuch = !bogus;
            let bytes = <$S as Sz>::BYTES;
            let outcome_ok = bogus
                || match &res {
                    Ok(_) => outcome == OK,
                    Err(TranslateError::PageNotMapped) => outcome == E_NOT_MAPPED || outcome == E_NO_SUCH_MAPPING,
                    Err(TranslateError::ParentEntryHugePage) => outcome == E_PARENT_HUGE || outcome == E_NO_SUCH_MAPPING,
                    Err(TranslateError::InvalidFrameAddress(a)) => outcome == E_NO_SUCH_MAPPING || (outcome == E_INVALID_FRAME && a.as_u64() == pre.e[LV] & ADDR),
                };
            let walk_ok = bogus
                || outcome == E_NO_SUCH_MAPPING
                || outcome == E_INVALID_FRAME
                || match &res {
                    Ok(f) => w_in.kind == MAPPED && w_in.size == bytes && f.start_address().as_u64() == w_in.phys & !(bytes - 1),
                    Err(TranslateError::PageNotMapped) => w_in.kind == NOT_MAPPED,
                    Err(TranslateError::ParentEntryHugePage) => w_in.kind == MAPPED && w_in.size > bytes,
                    Err(TranslateError::InvalidFrameAddress(_)) => false,
                };
            let f_post = pool.rd(fk, fs);
            let c_frame = f_pre == f_post;
            let c_noalloc = ghost().seq == 0 && ghost().zero_elsewhere == 0;
            let c_outside = ghost().outside == 0;
            each! {
                c_nosuch => ob!("C02", "translate_page", $sz, $shape, "no_success_for_nonexistent_size: no mapping of this size exists, the call must not succeed"),
                outcome_ok => ob!("C02", "translate_page", $sz, $shape, "documented_outcome: Ok for a mapped page of this size, PageNotMapped iff an entry on the path is absent, ParentEntryHugePage iff the page lies inside a larger huge page, InvalidFrameAddress(entry address) iff the leaf frame is misaligned"),
                walk_ok => ob!("C01", "translate_page", $sz, $shape, "agrees_with_walk: Ok(frame) iff the hardware walk maps every address of the page into that frame at this size; PageNotMapped iff it finds nothing; ParentEntryHugePage iff it ends in a larger page"),
                c_frame => ob!("C09", "translate_page", $sz, $shape, "writes_nothing: every word of every table unchanged"),
                c_noalloc => ob!("C09", "translate_page", $sz, $shape, "no_frames_requested_or_zeroed"),
                c_outside => ob!("C09", "translate_page", $sz, $shape, "no_access_outside_page_tables: no pointer was requested for a frame that is not a page table of the hierarchy"),
            }
            kani::cover(outcome == OK, concat!("translate_page_", $sz, " ", $shape, ": Ok"));
            kani::cover(outcome == E_NOT_MAPPED, concat!("translate_page_", $sz, " ", $shape, ": PageNotMapped"));
            kani::cover(outcome == E_PARENT_HUGE, concat!("translate_page_", $sz, " ", $shape, ": ParentEntryHugePage"));
        }};
    }

    // `$S`/`$sz` are unused name parts here ("any"): translate has no page size argument.
    macro_rules! translate_step {
        ($S:ty, $sz:literal, $shape:literal, $SH:expr, $ix:expr) => {{
            let ix: Idx = $ix;
            let sh: Shape = $SH;
            mk_pool!(pool);
            let _pre = build_path(&pool, &ix, sh);
            add_background(&pool, &ix);
            let (inside, jx) = any_inside::<Size4KiB>(&ix);
            let probe = any_canonical();
            let w_in = hw_walk_ix(&pool, &jx, inside);
            let w_pr = hw_walk(&pool, probe);
            kani::assume(w_in.kind != MALFORMED && w_pr.kind != MALFORMED);
            let (fk, fs, f_pre) = any_slot(&pool);

            let mapper = unsafe { MappedPageTable::new(&mut *pool.p[0], pool) };
            let t_in = mapper.translate(VirtAddr::new(inside));
            let t_pr = mapper.translate(VirtAddr::new(probe));
            let a_in = mapper.translate_addr(VirtAddr::new(inside));
            let a_pr = mapper.translate_addr(VirtAddr::new(probe));

            let c_in = translate_agrees(&t_in, &w_in, inside);
            let c_pr = translate_agrees(&t_pr, &w_pr, probe);
            let c_addr = translate_addr_agrees(&a_in, &w_in) && translate_addr_agrees(&a_pr, &w_pr);
            let f_post = pool.rd(fk, fs);
            let c_frame = f_pre == f_post;
            let c_noalloc = ghost().seq == 0 && ghost().zero_elsewhere == 0;
            let c_outside = ghost().outside == 0;
            each! {
                c_in => ob!("C01", "translate", $sz, $shape, "target_agrees_with_walk: frame, size, offset and leaf flags of an address on the target path"),
                c_pr => ob!("C01", "translate", $sz, $shape, "probe_agrees_with_walk: frame, size, offset and leaf flags of an arbitrary address"),
                c_addr => ob!("C01", "translate_addr", $sz, $shape, "agrees_with_walk: Some(physical address of the walk) or None"),
                c_frame => ob!("C09", "translate", $sz, $shape, "writes_nothing: every word of every table unchanged"),
                c_noalloc => ob!("C09", "translate", $sz, $shape, "no_frames_requested_or_zeroed"),
                c_outside => ob!("C09", "translate", $sz, $shape, "no_access_outside_page_tables: no pointer was requested for a frame that is not a page table of the hierarchy"),
            }
            kani::cover(w_in.kind == MAPPED, concat!("translate ", $shape, ": target mapped"));
            kani::cover(w_pr.kind == MAPPED && w_pr.size == SZ_2M, concat!("translate ", $shape, ": probe in a 2 MiB neighbour"));
            kani::cover(w_pr.kind == MAPPED && w_pr.size == SZ_1G, concat!("translate ", $shape, ": probe in a 1 GiB neighbour"));
        }};
    }

    //@ obligation C01 C01.translate_page_4kib.shape_p4_absent.agrees_with_walk bounded="pool of 7 tables (4 path + 3 allocatable); tree-shaped sparse pre-state (target path, one neighbour word per path table, garbage in allocatable frames); page-table indices (0,1,511,2)"
    //@ obligation C02 C02.translate_page_4kib.shape_p4_absent.documented_outcome bounded="pool of 7 tables (4 path + 3 allocatable); tree-shaped sparse pre-state (target path, one neighbour word per path table, garbage in allocatable frames); page-table indices (0,1,511,2)"
    //@ obligation C09 C09.translate_page_4kib.shape_p4_absent.writes_nothing bounded="pool of 7 tables (4 path + 3 allocatable); tree-shaped sparse pre-state (target path, one neighbour word per path table, garbage in allocatable frames); page-table indices (0,1,511,2)"
    //@ obligation C09 C09.translate_page_4kib.shape_p4_absent.no_frames_requested_or_zeroed bounded="pool of 7 tables (4 path + 3 allocatable); tree-shaped sparse pre-state (target path, one neighbour word per path table, garbage in allocatable frames); page-table indices (0,1,511,2)"
    //@ obligation C09 C09.translate_page_4kib.shape_p4_absent.no_access_outside_page_tables bounded="pool of 7 tables (4 path + 3 allocatable); tree-shaped sparse pre-state (target path, one neighbour word per path table, garbage in allocatable frames); page-table indices (0,1,511,2)"
    #[kani::proof]
    #[kani::stub(PageTable::zero, zero_stub)]
    fn c01_translate_page_4kib_p4_absent_lo() {
        translate_page_step!(Size4KiB, "4kib", "p4_absent", P4_ABSENT, IDX_LO);
        kani::cover!(true, "c01_translate_page_4kib_p4_absent_lo: reachable");
    }

    //@ obligation C01 C01.translate_page_4kib.shape_p4_absent.agrees_with_walk tier=thorough bounded="pool of 7 tables (4 path + 3 allocatable); tree-shaped sparse pre-state (target path, one neighbour word per path table, garbage in allocatable frames); page-table indices (511,510,1,0)"
    //@ obligation C02 C02.translate_page_4kib.shape_p4_absent.documented_outcome tier=thorough bounded="pool of 7 tables (4 path + 3 allocatable); tree-shaped sparse pre-state (target path, one neighbour word per path table, garbage in allocatable frames); page-table indices (511,510,1,0)"
    //@ obligation C09 C09.translate_page_4kib.shape_p4_absent.writes_nothing tier=thorough bounded="pool of 7 tables (4 path + 3 allocatable); tree-shaped sparse pre-state (target path, one neighbour word per path table, garbage in allocatable frames); page-table indices (511,510,1,0)"
    //@ obligation C09 C09.translate_page_4kib.shape_p4_absent.no_frames_requested_or_zeroed tier=thorough bounded="pool of 7 tables (4 path + 3 allocatable); tree-shaped sparse pre-state (target path, one neighbour word per path table, garbage in allocatable frames); page-table indices (511,510,1,0)"
    //@ obligation C09 C09.translate_page_4kib.shape_p4_absent.no_access_outside_page_tables tier=thorough bounded="pool of 7 tables (4 path + 3 allocatable); tree-shaped sparse pre-state (target path, one neighbour word per path table, garbage in allocatable frames); page-table indices (511,510,1,0)"
    #[kani::proof]
    #[kani::stub(PageTable::zero, zero_stub)]
    fn c01_translate_page_4kib_p4_absent_hi() {
        translate_page_step!(Size4KiB, "4kib", "p4_absent", P4_ABSENT, IDX_HI);
        kani::cover!(true, "c01_translate_page_4kib_p4_absent_hi: reachable");
    }

    //@ obligation C01 C01.translate_page_4kib.shape_p4_absent.agrees_with_walk tier=thorough bounded="pool of 7 tables (4 path + 3 allocatable); tree-shaped sparse pre-state (target path, one neighbour word per path table, garbage in allocatable frames); page-table indices (255,511,0,256)"
    //@ obligation C02 C02.translate_page_4kib.shape_p4_absent.documented_outcome tier=thorough bounded="pool of 7 tables (4 path + 3 allocatable); tree-shaped sparse pre-state (target path, one neighbour word per path table, garbage in allocatable frames); page-table indices (255,511,0,256)"
    //@ obligation C09 C09.translate_page_4kib.shape_p4_absent.writes_nothing tier=thorough bounded="pool of 7 tables (4 path + 3 allocatable); tree-shaped sparse pre-state (target path, one neighbour word per path table, garbage in allocatable frames); page-table indices (255,511,0,256)"
    //@ obligation C09 C09.translate_page_4kib.shape_p4_absent.no_frames_requested_or_zeroed tier=thorough bounded="pool of 7 tables (4 path + 3 allocatable); tree-shaped sparse pre-state (target path, one neighbour word per path table, garbage in allocatable frames); page-table indices (255,511,0,256)"
    //@ obligation C09 C09.translate_page_4kib.shape_p4_absent.no_access_outside_page_tables tier=thorough bounded="pool of 7 tables (4 path + 3 allocatable); tree-shaped sparse pre-state (target path, one neighbour word per path table, garbage in allocatable frames); page-table indices (255,511,0,256)"
    #[kani::proof]
    #[kani::stub(PageTable::zero, zero_stub)]
    fn c01_translate_page_4kib_p4_absent_mid() {
        translate_page_step!(Size4KiB, "4kib", "p4_absent", P4_ABSENT, IDX_MID);
        kani::cover!(true, "c01_translate_page_4kib_p4_absent_mid: reachable");
    }

    //@ obligation C01 C01.translate_page_4kib.shape_p4_absent.agrees_with_walk tier=thorough bounded="pool of 7 tables (4 path + 3 allocatable); tree-shaped sparse pre-state (target path, one neighbour word per path table, garbage in allocatable frames); page-table indices (256,0,510,511)"
    //@ obligation C02 C02.translate_page_4kib.shape_p4_absent.documented_outcome tier=thorough bounded="pool of 7 tables (4 path + 3 allocatable); tree-shaped sparse pre-state (target path, one neighbour word per path table, garbage in allocatable frames); page-table indices (256,0,510,511)"
    //@ obligation C09 C09.translate_page_4kib.shape_p4_absent.writes_nothing tier=thorough bounded="pool of 7 tables (4 path + 3 allocatable); tree-shaped sparse pre-state (target path, one neighbour word per path table, garbage in allocatable frames); page-table indices (256,0,510,511)"
    //@ obligation C09 C09.translate_page_4kib.shape_p4_absent.no_frames_requested_or_zeroed tier=thorough bounded="pool of 7 tables (4 path + 3 allocatable); tree-shaped sparse pre-state (target path, one neighbour word per path table, garbage in allocatable frames); page-table indices (256,0,510,511)"
    //@ obligation C09 C09.translate_page_4kib.shape_p4_absent.no_access_outside_page_tables tier=thorough bounded="pool of 7 tables (4 path + 3 allocatable); tree-shaped sparse pre-state (target path, one neighbour word per path table, garbage in allocatable frames); page-table indices (256,0,510,511)"
    #[kani::proof]
    #[kani::stub(PageTable::zero, zero_stub)]
    fn c01_translate_page_4kib_p4_absent_up() {
        translate_page_step!(Size4KiB, "4kib", "p4_absent", P4_ABSENT, IDX_UP);
        kani::cover!(true, "c01_translate_page_4kib_p4_absent_up: reachable");
    }

    //@ obligation C01 C01.translate_page_4kib.shape_p3_absent.agrees_with_walk bounded="pool of 7 tables (4 path + 3 allocatable); tree-shaped sparse pre-state (target path, one neighbour word per path table, garbage in allocatable frames); page-table indices (0,1,511,2)"
    //@ obligation C02 C02.translate_page_4kib.shape_p3_absent.documented_outcome bounded="pool of 7 tables (4 path + 3 allocatable); tree-shaped sparse pre-state (target path, one neighbour word per path table, garbage in allocatable frames); page-table indices (0,1,511,2)"
    //@ obligation C09 C09.translate_page_4kib.shape_p3_absent.writes_nothing bounded="pool of 7 tables (4 path + 3 allocatable); tree-shaped sparse pre-state (target path, one neighbour word per path table, garbage in allocatable frames); page-table indices (0,1,511,2)"
    //@ obligation C09 C09.translate_page_4kib.shape_p3_absent.no_frames_requested_or_zeroed bounded="pool of 7 tables (4 path + 3 allocatable); tree-shaped sparse pre-state (target path, one neighbour word per path table, garbage in allocatable frames); page-table indices (0,1,511,2)"
    //@ obligation C09 C09.translate_page_4kib.shape_p3_absent.no_access_outside_page_tables bounded="pool of 7 tables (4 path + 3 allocatable); tree-shaped sparse pre-state (target path, one neighbour word per path table, garbage in allocatable frames); page-table indices (0,1,511,2)"
    #[kani::proof]
    #[kani::stub(PageTable::zero, zero_stub)]
    fn c01_translate_page_4kib_p3_absent_lo() {
        translate_page_step!(Size4KiB, "4kib", "p3_absent", P3_ABSENT, IDX_LO);
        kani::cover!(true, "c01_translate_page_4kib_p3_absent_lo: reachable");
    }

    //@ obligation C01 C01.translate_page_4kib.shape_p3_absent.agrees_with_walk tier=thorough bounded="pool of 7 tables (4 path + 3 allocatable); tree-shaped sparse pre-state (target path, one neighbour word per path table, garbage in allocatable frames); page-table indices (511,510,1,0)"
    //@ obligation C02 C02.translate_page_4kib.shape_p3_absent.documented_outcome tier=thorough bounded="pool of 7 tables (4 path + 3 allocatable); tree-shaped sparse pre-state (target path, one neighbour word per path table, garbage in allocatable frames); page-table indices (511,510,1,0)"
    //@ obligation C09 C09.translate_page_4kib.shape_p3_absent.writes_nothing tier=thorough bounded="pool of 7 tables (4 path + 3 allocatable); tree-shaped sparse pre-state (target path, one neighbour word per path table, garbage in allocatable frames); page-table indices (511,510,1,0)"
    //@ obligation C09 C09.translate_page_4kib.shape_p3_absent.no_frames_requested_or_zeroed tier=thorough bounded="pool of 7 tables (4 path + 3 allocatable); tree-shaped sparse pre-state (target path, one neighbour word per path table, garbage in allocatable frames); page-table indices (511,510,1,0)"
    //@ obligation C09 C09.translate_page_4kib.shape_p3_absent.no_access_outside_page_tables tier=thorough bounded="pool of 7 tables (4 path + 3 allocatable); tree-shaped sparse pre-state (target path, one neighbour word per path table, garbage in allocatable frames); page-table indices (511,510,1,0)"
    #[kani::proof]
    #[kani::stub(PageTable::zero, zero_stub)]
    fn c01_translate_page_4kib_p3_absent_hi() {
        translate_page_step!(Size4KiB, "4kib", "p3_absent", P3_ABSENT, IDX_HI);
        kani::cover!(true, "c01_translate_page_4kib_p3_absent_hi: reachable");
    }

    //@ obligation C01 C01.translate_page_4kib.shape_p3_absent.agrees_with_walk tier=thorough bounded="pool of 7 tables (4 path + 3 allocatable); tree-shaped sparse pre-state (target path, one neighbour word per path table, garbage in allocatable frames); page-table indices (255,511,0,256)"
    //@ obligation C02 C02.translate_page_4kib.shape_p3_absent.documented_outcome tier=thorough bounded="pool of 7 tables (4 path + 3 allocatable); tree-shaped sparse pre-state (target path, one neighbour word per path table, garbage in allocatable frames); page-table indices (255,511,0,256)"
    //@ obligation C09 C09.translate_page_4kib.shape_p3_absent.writes_nothing tier=thorough bounded="pool of 7 tables (4 path + 3 allocatable); tree-shaped sparse pre-state (target path, one neighbour word per path table, garbage in allocatable frames); page-table indices (255,511,0,256)"
    //@ obligation C09 C09.translate_page_4kib.shape_p3_absent.no_frames_requested_or_zeroed tier=thorough bounded="pool of 7 tables (4 path + 3 allocatable); tree-shaped sparse pre-state (target path, one neighbour word per path table, garbage in allocatable frames); page-table indices (255,511,0,256)"
    //@ obligation C09 C09.translate_page_4kib.shape_p3_absent.no_access_outside_page_tables tier=thorough bounded="pool of 7 tables (4 path + 3 allocatable); tree-shaped sparse pre-state (target path, one neighbour word per path table, garbage in allocatable frames); page-table indices (255,511,0,256)"
    #[kani::proof]
    #[kani::stub(PageTable::zero, zero_stub)]
    fn c01_translate_page_4kib_p3_absent_mid() {
        translate_page_step!(Size4KiB, "4kib", "p3_absent", P3_ABSENT, IDX_MID);
        kani::cover!(true, "c01_translate_page_4kib_p3_absent_mid: reachable");
    }

    //@ obligation C01 C01.translate_page_4kib.shape_p3_absent.agrees_with_walk tier=thorough bounded="pool of 7 tables (4 path + 3 allocatable); tree-shaped sparse pre-state (target path, one neighbour word per path table, garbage in allocatable frames); page-table indices (256,0,510,511)"
    //@ obligation C02 C02.translate_page_4kib.shape_p3_absent.documented_outcome tier=thorough bounded="pool of 7 tables (4 path + 3 allocatable); tree-shaped sparse pre-state (target path, one neighbour word per path table, garbage in allocatable frames); page-table indices (256,0,510,511)"
    //@ obligation C09 C09.translate_page_4kib.shape_p3_absent.writes_nothing tier=thorough bounded="pool of 7 tables (4 path + 3 allocatable); tree-shaped sparse pre-state (target path, one neighbour word per path table, garbage in allocatable frames); page-table indices (256,0,510,511)"
    //@ obligation C09 C09.translate_page_4kib.shape_p3_absent.no_frames_requested_or_zeroed tier=thorough bounded="pool of 7 tables (4 path + 3 allocatable); tree-shaped sparse pre-state (target path, one neighbour word per path table, garbage in allocatable frames); page-table indices (256,0,510,511)"
    //@ obligation C09 C09.translate_page_4kib.shape_p3_absent.no_access_outside_page_tables tier=thorough bounded="pool of 7 tables (4 path + 3 allocatable); tree-shaped sparse pre-state (target path, one neighbour word per path table, garbage in allocatable frames); page-table indices (256,0,510,511)"
    #[kani::proof]
    #[kani::stub(PageTable::zero, zero_stub)]
    fn c01_translate_page_4kib_p3_absent_up() {
        translate_page_step!(Size4KiB, "4kib", "p3_absent", P3_ABSENT, IDX_UP);
        kani::cover!(true, "c01_translate_page_4kib_p3_absent_up: reachable");
    }

    //@ obligation C01 C01.translate_page_4kib.shape_p3_huge.agrees_with_walk tier=thorough bounded="pool of 7 tables (4 path + 3 allocatable); tree-shaped sparse pre-state (target path, one neighbour word per path table, garbage in allocatable frames); page-table indices (0,1,511,2)"
    //@ obligation C02 C02.translate_page_4kib.shape_p3_huge.documented_outcome tier=thorough bounded="pool of 7 tables (4 path + 3 allocatable); tree-shaped sparse pre-state (target path, one neighbour word per path table, garbage in allocatable frames); page-table indices (0,1,511,2)"
    //@ obligation C09 C09.translate_page_4kib.shape_p3_huge.writes_nothing tier=thorough bounded="pool of 7 tables (4 path + 3 allocatable); tree-shaped sparse pre-state (target path, one neighbour word per path table, garbage in allocatable frames); page-table indices (0,1,511,2)"
    //@ obligation C09 C09.translate_page_4kib.shape_p3_huge.no_frames_requested_or_zeroed tier=thorough bounded="pool of 7 tables (4 path + 3 allocatable); tree-shaped sparse pre-state (target path, one neighbour word per path table, garbage in allocatable frames); page-table indices (0,1,511,2)"
    //@ obligation C09 C09.translate_page_4kib.shape_p3_huge.no_access_outside_page_tables tier=thorough bounded="pool of 7 tables (4 path + 3 allocatable); tree-shaped sparse pre-state (target path, one neighbour word per path table, garbage in allocatable frames); page-table indices (0,1,511,2)"
    #[kani::proof]
    #[kani::stub(PageTable::zero, zero_stub)]
    fn c01_translate_page_4kib_p3_huge_lo() {
        translate_page_step!(Size4KiB, "4kib", "p3_huge", P3_HUGE, IDX_LO);
        kani::cover!(true, "c01_translate_page_4kib_p3_huge_lo: reachable");
    }

    //@ obligation C01 C01.translate_page_4kib.shape_p3_huge.agrees_with_walk tier=thorough bounded="pool of 7 tables (4 path + 3 allocatable); tree-shaped sparse pre-state (target path, one neighbour word per path table, garbage in allocatable frames); page-table indices (511,510,1,0)"
    //@ obligation C02 C02.translate_page_4kib.shape_p3_huge.documented_outcome tier=thorough bounded="pool of 7 tables (4 path + 3 allocatable); tree-shaped sparse pre-state (target path, one neighbour word per path table, garbage in allocatable frames); page-table indices (511,510,1,0)"
    //@ obligation C09 C09.translate_page_4kib.shape_p3_huge.writes_nothing tier=thorough bounded="pool of 7 tables (4 path + 3 allocatable); tree-shaped sparse pre-state (target path, one neighbour word per path table, garbage in allocatable frames); page-table indices (511,510,1,0)"
    //@ obligation C09 C09.translate_page_4kib.shape_p3_huge.no_frames_requested_or_zeroed tier=thorough bounded="pool of 7 tables (4 path + 3 allocatable); tree-shaped sparse pre-state (target path, one neighbour word per path table, garbage in allocatable frames); page-table indices (511,510,1,0)"
    //@ obligation C09 C09.translate_page_4kib.shape_p3_huge.no_access_outside_page_tables tier=thorough bounded="pool of 7 tables (4 path + 3 allocatable); tree-shaped sparse pre-state (target path, one neighbour word per path table, garbage in allocatable frames); page-table indices (511,510,1,0)"
    #[kani::proof]
    #[kani::stub(PageTable::zero, zero_stub)]
    fn c01_translate_page_4kib_p3_huge_hi() {
        translate_page_step!(Size4KiB, "4kib", "p3_huge", P3_HUGE, IDX_HI);
        kani::cover!(true, "c01_translate_page_4kib_p3_huge_hi: reachable");
    }

    //@ obligation C01 C01.translate_page_4kib.shape_p3_huge.agrees_with_walk bounded="pool of 7 tables (4 path + 3 allocatable); tree-shaped sparse pre-state (target path, one neighbour word per path table, garbage in allocatable frames); page-table indices (255,511,0,256)"
    //@ obligation C02 C02.translate_page_4kib.shape_p3_huge.documented_outcome bounded="pool of 7 tables (4 path + 3 allocatable); tree-shaped sparse pre-state (target path, one neighbour word per path table, garbage in allocatable frames); page-table indices (255,511,0,256)"
    //@ obligation C09 C09.translate_page_4kib.shape_p3_huge.writes_nothing bounded="pool of 7 tables (4 path + 3 allocatable); tree-shaped sparse pre-state (target path, one neighbour word per path table, garbage in allocatable frames); page-table indices (255,511,0,256)"
    //@ obligation C09 C09.translate_page_4kib.shape_p3_huge.no_frames_requested_or_zeroed bounded="pool of 7 tables (4 path + 3 allocatable); tree-shaped sparse pre-state (target path, one neighbour word per path table, garbage in allocatable frames); page-table indices (255,511,0,256)"
    //@ obligation C09 C09.translate_page_4kib.shape_p3_huge.no_access_outside_page_tables bounded="pool of 7 tables (4 path + 3 allocatable); tree-shaped sparse pre-state (target path, one neighbour word per path table, garbage in allocatable frames); page-table indices (255,511,0,256)"
    #[kani::proof]
    #[kani::stub(PageTable::zero, zero_stub)]
    fn c01_translate_page_4kib_p3_huge_mid() {
        translate_page_step!(Size4KiB, "4kib", "p3_huge", P3_HUGE, IDX_MID);
        kani::cover!(true, "c01_translate_page_4kib_p3_huge_mid: reachable");
    }

    //@ obligation C01 C01.translate_page_4kib.shape_p3_huge.agrees_with_walk tier=thorough bounded="pool of 7 tables (4 path + 3 allocatable); tree-shaped sparse pre-state (target path, one neighbour word per path table, garbage in allocatable frames); page-table indices (256,0,510,511)"
    //@ obligation C02 C02.translate_page_4kib.shape_p3_huge.documented_outcome tier=thorough bounded="pool of 7 tables (4 path + 3 allocatable); tree-shaped sparse pre-state (target path, one neighbour word per path table, garbage in allocatable frames); page-table indices (256,0,510,511)"
    //@ obligation C09 C09.translate_page_4kib.shape_p3_huge.writes_nothing tier=thorough bounded="pool of 7 tables (4 path + 3 allocatable); tree-shaped sparse pre-state (target path, one neighbour word per path table, garbage in allocatable frames); page-table indices (256,0,510,511)"
    //@ obligation C09 C09.translate_page_4kib.shape_p3_huge.no_frames_requested_or_zeroed tier=thorough bounded="pool of 7 tables (4 path + 3 allocatable); tree-shaped sparse pre-state (target path, one neighbour word per path table, garbage in allocatable frames); page-table indices (256,0,510,511)"
    //@ obligation C09 C09.translate_page_4kib.shape_p3_huge.no_access_outside_page_tables tier=thorough bounded="pool of 7 tables (4 path + 3 allocatable); tree-shaped sparse pre-state (target path, one neighbour word per path table, garbage in allocatable frames); page-table indices (256,0,510,511)"
    #[kani::proof]
    #[kani::stub(PageTable::zero, zero_stub)]
    fn c01_translate_page_4kib_p3_huge_up() {
        translate_page_step!(Size4KiB, "4kib", "p3_huge", P3_HUGE, IDX_UP);
        kani::cover!(true, "c01_translate_page_4kib_p3_huge_up: reachable");
    }

    //@ obligation C01 C01.translate_page_4kib.shape_p2_absent.agrees_with_walk bounded="pool of 7 tables (4 path + 3 allocatable); tree-shaped sparse pre-state (target path, one neighbour word per path table, garbage in allocatable frames); page-table indices (0,1,511,2)"
    //@ obligation C02 C02.translate_page_4kib.shape_p2_absent.documented_outcome bounded="pool of 7 tables (4 path + 3 allocatable); tree-shaped sparse pre-state (target path, one neighbour word per path table, garbage in allocatable frames); page-table indices (0,1,511,2)"
    //@ obligation C09 C09.translate_page_4kib.shape_p2_absent.writes_nothing bounded="pool of 7 tables (4 path + 3 allocatable); tree-shaped sparse pre-state (target path, one neighbour word per path table, garbage in allocatable frames); page-table indices (0,1,511,2)"
    //@ obligation C09 C09.translate_page_4kib.shape_p2_absent.no_frames_requested_or_zeroed bounded="pool of 7 tables (4 path + 3 allocatable); tree-shaped sparse pre-state (target path, one neighbour word per path table, garbage in allocatable frames); page-table indices (0,1,511,2)"
    //@ obligation C09 C09.translate_page_4kib.shape_p2_absent.no_access_outside_page_tables bounded="pool of 7 tables (4 path + 3 allocatable); tree-shaped sparse pre-state (target path, one neighbour word per path table, garbage in allocatable frames); page-table indices (0,1,511,2)"
    #[kani::proof]
    #[kani::stub(PageTable::zero, zero_stub)]
    fn c01_translate_page_4kib_p2_absent_lo() {
        translate_page_step!(Size4KiB, "4kib", "p2_absent", P2_ABSENT, IDX_LO);
        kani::cover!(true, "c01_translate_page_4kib_p2_absent_lo: reachable");
    }

    //@ obligation C01 C01.translate_page_4kib.shape_p2_absent.agrees_with_walk tier=thorough bounded="pool of 7 tables (4 path + 3 allocatable); tree-shaped sparse pre-state (target path, one neighbour word per path table, garbage in allocatable frames); page-table indices (511,510,1,0)"
    //@ obligation C02 C02.translate_page_4kib.shape_p2_absent.documented_outcome tier=thorough bounded="pool of 7 tables (4 path + 3 allocatable); tree-shaped sparse pre-state (target path, one neighbour word per path table, garbage in allocatable frames); page-table indices (511,510,1,0)"
    //@ obligation C09 C09.translate_page_4kib.shape_p2_absent.writes_nothing tier=thorough bounded="pool of 7 tables (4 path + 3 allocatable); tree-shaped sparse pre-state (target path, one neighbour word per path table, garbage in allocatable frames); page-table indices (511,510,1,0)"
    //@ obligation C09 C09.translate_page_4kib.shape_p2_absent.no_frames_requested_or_zeroed tier=thorough bounded="pool of 7 tables (4 path + 3 allocatable); tree-shaped sparse pre-state (target path, one neighbour word per path table, garbage in allocatable frames); page-table indices (511,510,1,0)"
    //@ obligation C09 C09.translate_page_4kib.shape_p2_absent.no_access_outside_page_tables tier=thorough bounded="pool of 7 tables (4 path + 3 allocatable); tree-shaped sparse pre-state (target path, one neighbour word per path table, garbage in allocatable frames); page-table indices (511,510,1,0)"
    #[kani::proof]
    #[kani::stub(PageTable::zero, zero_stub)]
    fn c01_translate_page_4kib_p2_absent_hi() {
        translate_page_step!(Size4KiB, "4kib", "p2_absent", P2_ABSENT, IDX_HI);
        kani::cover!(true, "c01_translate_page_4kib_p2_absent_hi: reachable");
    }

    //@ obligation C01 C01.translate_page_4kib.shape_p2_absent.agrees_with_walk tier=thorough bounded="pool of 7 tables (4 path + 3 allocatable); tree-shaped sparse pre-state (target path, one neighbour word per path table, garbage in allocatable frames); page-table indices (255,511,0,256)"
    //@ obligation C02 C02.translate_page_4kib.shape_p2_absent.documented_outcome tier=thorough bounded="pool of 7 tables (4 path + 3 allocatable); tree-shaped sparse pre-state (target path, one neighbour word per path table, garbage in allocatable frames); page-table indices (255,511,0,256)"
    //@ obligation C09 C09.translate_page_4kib.shape_p2_absent.writes_nothing tier=thorough bounded="pool of 7 tables (4 path + 3 allocatable); tree-shaped sparse pre-state (target path, one neighbour word per path table, garbage in allocatable frames); page-table indices (255,511,0,256)"
    //@ obligation C09 C09.translate_page_4kib.shape_p2_absent.no_frames_requested_or_zeroed tier=thorough bounded="pool of 7 tables (4 path + 3 allocatable); tree-shaped sparse pre-state (target path, one neighbour word per path table, garbage in allocatable frames); page-table indices (255,511,0,256)"
    //@ obligation C09 C09.translate_page_4kib.shape_p2_absent.no_access_outside_page_tables tier=thorough bounded="pool of 7 tables (4 path + 3 allocatable); tree-shaped sparse pre-state (target path, one neighbour word per path table, garbage in allocatable frames); page-table indices (255,511,0,256)"
    #[kani::proof]
    #[kani::stub(PageTable::zero, zero_stub)]
    fn c01_translate_page_4kib_p2_absent_mid() {
        translate_page_step!(Size4KiB, "4kib", "p2_absent", P2_ABSENT, IDX_MID);
        kani::cover!(true, "c01_translate_page_4kib_p2_absent_mid: reachable");
    }

    //@ obligation C01 C01.translate_page_4kib.shape_p2_absent.agrees_with_walk tier=thorough bounded="pool of 7 tables (4 path + 3 allocatable); tree-shaped sparse pre-state (target path, one neighbour word per path table, garbage in allocatable frames); page-table indices (256,0,510,511)"
    //@ obligation C02 C02.translate_page_4kib.shape_p2_absent.documented_outcome tier=thorough bounded="pool of 7 tables (4 path + 3 allocatable); tree-shaped sparse pre-state (target path, one neighbour word per path table, garbage in allocatable frames); page-table indices (256,0,510,511)"
    //@ obligation C09 C09.translate_page_4kib.shape_p2_absent.writes_nothing tier=thorough bounded="pool of 7 tables (4 path + 3 allocatable); tree-shaped sparse pre-state (target path, one neighbour word per path table, garbage in allocatable frames); page-table indices (256,0,510,511)"
    //@ obligation C09 C09.translate_page_4kib.shape_p2_absent.no_frames_requested_or_zeroed tier=thorough bounded="pool of 7 tables (4 path + 3 allocatable); tree-shaped sparse pre-state (target path, one neighbour word per path table, garbage in allocatable frames); page-table indices (256,0,510,511)"
    //@ obligation C09 C09.translate_page_4kib.shape_p2_absent.no_access_outside_page_tables tier=thorough bounded="pool of 7 tables (4 path + 3 allocatable); tree-shaped sparse pre-state (target path, one neighbour word per path table, garbage in allocatable frames); page-table indices (256,0,510,511)"
    #[kani::proof]
    #[kani::stub(PageTable::zero, zero_stub)]
    fn c01_translate_page_4kib_p2_absent_up() {
        translate_page_step!(Size4KiB, "4kib", "p2_absent", P2_ABSENT, IDX_UP);
        kani::cover!(true, "c01_translate_page_4kib_p2_absent_up: reachable");
    }

    //@ obligation C01 C01.translate_page_4kib.shape_p2_huge.agrees_with_walk bounded="pool of 7 tables (4 path + 3 allocatable); tree-shaped sparse pre-state (target path, one neighbour word per path table, garbage in allocatable frames); page-table indices (0,1,511,2)"
    //@ obligation C02 C02.translate_page_4kib.shape_p2_huge.documented_outcome bounded="pool of 7 tables (4 path + 3 allocatable); tree-shaped sparse pre-state (target path, one neighbour word per path table, garbage in allocatable frames); page-table indices (0,1,511,2)"
    //@ obligation C09 C09.translate_page_4kib.shape_p2_huge.writes_nothing bounded="pool of 7 tables (4 path + 3 allocatable); tree-shaped sparse pre-state (target path, one neighbour word per path table, garbage in allocatable frames); page-table indices (0,1,511,2)"
    //@ obligation C09 C09.translate_page_4kib.shape_p2_huge.no_frames_requested_or_zeroed bounded="pool of 7 tables (4 path + 3 allocatable); tree-shaped sparse pre-state (target path, one neighbour word per path table, garbage in allocatable frames); page-table indices (0,1,511,2)"
    //@ obligation C09 C09.translate_page_4kib.shape_p2_huge.no_access_outside_page_tables bounded="pool of 7 tables (4 path + 3 allocatable); tree-shaped sparse pre-state (target path, one neighbour word per path table, garbage in allocatable frames); page-table indices (0,1,511,2)"
    #[kani::proof]
    #[kani::stub(PageTable::zero, zero_stub)]
    fn c01_translate_page_4kib_p2_huge_lo() {
        translate_page_step!(Size4KiB, "4kib", "p2_huge", P2_HUGE, IDX_LO);
        kani::cover!(true, "c01_translate_page_4kib_p2_huge_lo: reachable");
    }

    //@ obligation C01 C01.translate_page_4kib.shape_p2_huge.agrees_with_walk tier=thorough bounded="pool of 7 tables (4 path + 3 allocatable); tree-shaped sparse pre-state (target path, one neighbour word per path table, garbage in allocatable frames); page-table indices (511,510,1,0)"
    //@ obligation C02 C02.translate_page_4kib.shape_p2_huge.documented_outcome tier=thorough bounded="pool of 7 tables (4 path + 3 allocatable); tree-shaped sparse pre-state (target path, one neighbour word per path table, garbage in allocatable frames); page-table indices (511,510,1,0)"
    //@ obligation C09 C09.translate_page_4kib.shape_p2_huge.writes_nothing tier=thorough bounded="pool of 7 tables (4 path + 3 allocatable); tree-shaped sparse pre-state (target path, one neighbour word per path table, garbage in allocatable frames); page-table indices (511,510,1,0)"
    //@ obligation C09 C09.translate_page_4kib.shape_p2_huge.no_frames_requested_or_zeroed tier=thorough bounded="pool of 7 tables (4 path + 3 allocatable); tree-shaped sparse pre-state (target path, one neighbour word per path table, garbage in allocatable frames); page-table indices (511,510,1,0)"
    //@ obligation C09 C09.translate_page_4kib.shape_p2_huge.no_access_outside_page_tables tier=thorough bounded="pool of 7 tables (4 path + 3 allocatable); tree-shaped sparse pre-state (target path, one neighbour word per path table, garbage in allocatable frames); page-table indices (511,510,1,0)"
    #[kani::proof]
    #[kani::stub(PageTable::zero, zero_stub)]
    fn c01_translate_page_4kib_p2_huge_hi() {
        translate_page_step!(Size4KiB, "4kib", "p2_huge", P2_HUGE, IDX_HI);
        kani::cover!(true, "c01_translate_page_4kib_p2_huge_hi: reachable");
    }

    //@ obligation C01 C01.translate_page_4kib.shape_p2_huge.agrees_with_walk tier=thorough bounded="pool of 7 tables (4 path + 3 allocatable); tree-shaped sparse pre-state (target path, one neighbour word per path table, garbage in allocatable frames); page-table indices (255,511,0,256)"
    //@ obligation C02 C02.translate_page_4kib.shape_p2_huge.documented_outcome tier=thorough bounded="pool of 7 tables (4 path + 3 allocatable); tree-shaped sparse pre-state (target path, one neighbour word per path table, garbage in allocatable frames); page-table indices (255,511,0,256)"
    //@ obligation C09 C09.translate_page_4kib.shape_p2_huge.writes_nothing tier=thorough bounded="pool of 7 tables (4 path + 3 allocatable); tree-shaped sparse pre-state (target path, one neighbour word per path table, garbage in allocatable frames); page-table indices (255,511,0,256)"
    //@ obligation C09 C09.translate_page_4kib.shape_p2_huge.no_frames_requested_or_zeroed tier=thorough bounded="pool of 7 tables (4 path + 3 allocatable); tree-shaped sparse pre-state (target path, one neighbour word per path table, garbage in allocatable frames); page-table indices (255,511,0,256)"
    //@ obligation C09 C09.translate_page_4kib.shape_p2_huge.no_access_outside_page_tables tier=thorough bounded="pool of 7 tables (4 path + 3 allocatable); tree-shaped sparse pre-state (target path, one neighbour word per path table, garbage in allocatable frames); page-table indices (255,511,0,256)"
    #[kani::proof]
    #[kani::stub(PageTable::zero, zero_stub)]
    fn c01_translate_page_4kib_p2_huge_mid() {
        translate_page_step!(Size4KiB, "4kib", "p2_huge", P2_HUGE, IDX_MID);
        kani::cover!(true, "c01_translate_page_4kib_p2_huge_mid: reachable");
    }

    //@ obligation C01 C01.translate_page_4kib.shape_p2_huge.agrees_with_walk tier=thorough bounded="pool of 7 tables (4 path + 3 allocatable); tree-shaped sparse pre-state (target path, one neighbour word per path table, garbage in allocatable frames); page-table indices (256,0,510,511)"
    //@ obligation C02 C02.translate_page_4kib.shape_p2_huge.documented_outcome tier=thorough bounded="pool of 7 tables (4 path + 3 allocatable); tree-shaped sparse pre-state (target path, one neighbour word per path table, garbage in allocatable frames); page-table indices (256,0,510,511)"
    //@ obligation C09 C09.translate_page_4kib.shape_p2_huge.writes_nothing tier=thorough bounded="pool of 7 tables (4 path + 3 allocatable); tree-shaped sparse pre-state (target path, one neighbour word per path table, garbage in allocatable frames); page-table indices (256,0,510,511)"
    //@ obligation C09 C09.translate_page_4kib.shape_p2_huge.no_frames_requested_or_zeroed tier=thorough bounded="pool of 7 tables (4 path + 3 allocatable); tree-shaped sparse pre-state (target path, one neighbour word per path table, garbage in allocatable frames); page-table indices (256,0,510,511)"
    //@ obligation C09 C09.translate_page_4kib.shape_p2_huge.no_access_outside_page_tables tier=thorough bounded="pool of 7 tables (4 path + 3 allocatable); tree-shaped sparse pre-state (target path, one neighbour word per path table, garbage in allocatable frames); page-table indices (256,0,510,511)"
    #[kani::proof]
    #[kani::stub(PageTable::zero, zero_stub)]
    fn c01_translate_page_4kib_p2_huge_up() {
        translate_page_step!(Size4KiB, "4kib", "p2_huge", P2_HUGE, IDX_UP);
        kani::cover!(true, "c01_translate_page_4kib_p2_huge_up: reachable");
    }

    //@ obligation C01 C01.translate_page_4kib.shape_p1_absent.agrees_with_walk tier=thorough bounded="pool of 7 tables (4 path + 3 allocatable); tree-shaped sparse pre-state (target path, one neighbour word per path table, garbage in allocatable frames); page-table indices (0,1,511,2)"
    //@ obligation C02 C02.translate_page_4kib.shape_p1_absent.documented_outcome tier=thorough bounded="pool of 7 tables (4 path + 3 allocatable); tree-shaped sparse pre-state (target path, one neighbour word per path table, garbage in allocatable frames); page-table indices (0,1,511,2)"
    //@ obligation C09 C09.translate_page_4kib.shape_p1_absent.writes_nothing tier=thorough bounded="pool of 7 tables (4 path + 3 allocatable); tree-shaped sparse pre-state (target path, one neighbour word per path table, garbage in allocatable frames); page-table indices (0,1,511,2)"
    //@ obligation C09 C09.translate_page_4kib.shape_p1_absent.no_frames_requested_or_zeroed tier=thorough bounded="pool of 7 tables (4 path + 3 allocatable); tree-shaped sparse pre-state (target path, one neighbour word per path table, garbage in allocatable frames); page-table indices (0,1,511,2)"
    //@ obligation C09 C09.translate_page_4kib.shape_p1_absent.no_access_outside_page_tables tier=thorough bounded="pool of 7 tables (4 path + 3 allocatable); tree-shaped sparse pre-state (target path, one neighbour word per path table, garbage in allocatable frames); page-table indices (0,1,511,2)"
    #[kani::proof]
    #[kani::stub(PageTable::zero, zero_stub)]
    fn c01_translate_page_4kib_p1_absent_lo() {
        translate_page_step!(Size4KiB, "4kib", "p1_absent", P1_ABSENT, IDX_LO);
        kani::cover!(true, "c01_translate_page_4kib_p1_absent_lo: reachable");
    }

    //@ obligation C01 C01.translate_page_4kib.shape_p1_absent.agrees_with_walk tier=thorough bounded="pool of 7 tables (4 path + 3 allocatable); tree-shaped sparse pre-state (target path, one neighbour word per path table, garbage in allocatable frames); page-table indices (511,510,1,0)"
    //@ obligation C02 C02.translate_page_4kib.shape_p1_absent.documented_outcome tier=thorough bounded="pool of 7 tables (4 path + 3 allocatable); tree-shaped sparse pre-state (target path, one neighbour word per path table, garbage in allocatable frames); page-table indices (511,510,1,0)"
    //@ obligation C09 C09.translate_page_4kib.shape_p1_absent.writes_nothing tier=thorough bounded="pool of 7 tables (4 path + 3 allocatable); tree-shaped sparse pre-state (target path, one neighbour word per path table, garbage in allocatable frames); page-table indices (511,510,1,0)"
    //@ obligation C09 C09.translate_page_4kib.shape_p1_absent.no_frames_requested_or_zeroed tier=thorough bounded="pool of 7 tables (4 path + 3 allocatable); tree-shaped sparse pre-state (target path, one neighbour word per path table, garbage in allocatable frames); page-table indices (511,510,1,0)"
    //@ obligation C09 C09.translate_page_4kib.shape_p1_absent.no_access_outside_page_tables tier=thorough bounded="pool of 7 tables (4 path + 3 allocatable); tree-shaped sparse pre-state (target path, one neighbour word per path table, garbage in allocatable frames); page-table indices (511,510,1,0)"
    #[kani::proof]
    #[kani::stub(PageTable::zero, zero_stub)]
    fn c01_translate_page_4kib_p1_absent_hi() {
        translate_page_step!(Size4KiB, "4kib", "p1_absent", P1_ABSENT, IDX_HI);
        kani::cover!(true, "c01_translate_page_4kib_p1_absent_hi: reachable");
    }

    //@ obligation C01 C01.translate_page_4kib.shape_p1_absent.agrees_with_walk bounded="pool of 7 tables (4 path + 3 allocatable); tree-shaped sparse pre-state (target path, one neighbour word per path table, garbage in allocatable frames); page-table indices (255,511,0,256)"
    //@ obligation C02 C02.translate_page_4kib.shape_p1_absent.documented_outcome bounded="pool of 7 tables (4 path + 3 allocatable); tree-shaped sparse pre-state (target path, one neighbour word per path table, garbage in allocatable frames); page-table indices (255,511,0,256)"
    //@ obligation C09 C09.translate_page_4kib.shape_p1_absent.writes_nothing bounded="pool of 7 tables (4 path + 3 allocatable); tree-shaped sparse pre-state (target path, one neighbour word per path table, garbage in allocatable frames); page-table indices (255,511,0,256)"
    //@ obligation C09 C09.translate_page_4kib.shape_p1_absent.no_frames_requested_or_zeroed bounded="pool of 7 tables (4 path + 3 allocatable); tree-shaped sparse pre-state (target path, one neighbour word per path table, garbage in allocatable frames); page-table indices (255,511,0,256)"
    //@ obligation C09 C09.translate_page_4kib.shape_p1_absent.no_access_outside_page_tables bounded="pool of 7 tables (4 path + 3 allocatable); tree-shaped sparse pre-state (target path, one neighbour word per path table, garbage in allocatable frames); page-table indices (255,511,0,256)"
    #[kani::proof]
    #[kani::stub(PageTable::zero, zero_stub)]
    fn c01_translate_page_4kib_p1_absent_mid() {
        translate_page_step!(Size4KiB, "4kib", "p1_absent", P1_ABSENT, IDX_MID);
        kani::cover!(true, "c01_translate_page_4kib_p1_absent_mid: reachable");
    }

    //@ obligation C01 C01.translate_page_4kib.shape_p1_absent.agrees_with_walk tier=thorough bounded="pool of 7 tables (4 path + 3 allocatable); tree-shaped sparse pre-state (target path, one neighbour word per path table, garbage in allocatable frames); page-table indices (256,0,510,511)"
    //@ obligation C02 C02.translate_page_4kib.shape_p1_absent.documented_outcome tier=thorough bounded="pool of 7 tables (4 path + 3 allocatable); tree-shaped sparse pre-state (target path, one neighbour word per path table, garbage in allocatable frames); page-table indices (256,0,510,511)"
    //@ obligation C09 C09.translate_page_4kib.shape_p1_absent.writes_nothing tier=thorough bounded="pool of 7 tables (4 path + 3 allocatable); tree-shaped sparse pre-state (target path, one neighbour word per path table, garbage in allocatable frames); page-table indices (256,0,510,511)"
    //@ obligation C09 C09.translate_page_4kib.shape_p1_absent.no_frames_requested_or_zeroed tier=thorough bounded="pool of 7 tables (4 path + 3 allocatable); tree-shaped sparse pre-state (target path, one neighbour word per path table, garbage in allocatable frames); page-table indices (256,0,510,511)"
    //@ obligation C09 C09.translate_page_4kib.shape_p1_absent.no_access_outside_page_tables tier=thorough bounded="pool of 7 tables (4 path + 3 allocatable); tree-shaped sparse pre-state (target path, one neighbour word per path table, garbage in allocatable frames); page-table indices (256,0,510,511)"
    #[kani::proof]
    #[kani::stub(PageTable::zero, zero_stub)]
    fn c01_translate_page_4kib_p1_absent_up() {
        translate_page_step!(Size4KiB, "4kib", "p1_absent", P1_ABSENT, IDX_UP);
        kani::cover!(true, "c01_translate_page_4kib_p1_absent_up: reachable");
    }

    //@ obligation C01 C01.translate_page_4kib.shape_p1_leaf.agrees_with_walk tier=thorough bounded="pool of 7 tables (4 path + 3 allocatable); tree-shaped sparse pre-state (target path, one neighbour word per path table, garbage in allocatable frames); page-table indices (0,1,511,2)"
    //@ obligation C02 C02.translate_page_4kib.shape_p1_leaf.documented_outcome tier=thorough bounded="pool of 7 tables (4 path + 3 allocatable); tree-shaped sparse pre-state (target path, one neighbour word per path table, garbage in allocatable frames); page-table indices (0,1,511,2)"
    //@ obligation C09 C09.translate_page_4kib.shape_p1_leaf.writes_nothing tier=thorough bounded="pool of 7 tables (4 path + 3 allocatable); tree-shaped sparse pre-state (target path, one neighbour word per path table, garbage in allocatable frames); page-table indices (0,1,511,2)"
    //@ obligation C09 C09.translate_page_4kib.shape_p1_leaf.no_frames_requested_or_zeroed tier=thorough bounded="pool of 7 tables (4 path + 3 allocatable); tree-shaped sparse pre-state (target path, one neighbour word per path table, garbage in allocatable frames); page-table indices (0,1,511,2)"
    //@ obligation C09 C09.translate_page_4kib.shape_p1_leaf.no_access_outside_page_tables tier=thorough bounded="pool of 7 tables (4 path + 3 allocatable); tree-shaped sparse pre-state (target path, one neighbour word per path table, garbage in allocatable frames); page-table indices (0,1,511,2)"
    #[kani::proof]
    #[kani::stub(PageTable::zero, zero_stub)]
    fn c01_translate_page_4kib_p1_leaf_lo() {
        translate_page_step!(Size4KiB, "4kib", "p1_leaf", P1_LEAF, IDX_LO);
        kani::cover!(true, "c01_translate_page_4kib_p1_leaf_lo: reachable");
    }

    //@ obligation C01 C01.translate_page_4kib.shape_p1_leaf.agrees_with_walk tier=thorough bounded="pool of 7 tables (4 path + 3 allocatable); tree-shaped sparse pre-state (target path, one neighbour word per path table, garbage in allocatable frames); page-table indices (511,510,1,0)"
    //@ obligation C02 C02.translate_page_4kib.shape_p1_leaf.documented_outcome tier=thorough bounded="pool of 7 tables (4 path + 3 allocatable); tree-shaped sparse pre-state (target path, one neighbour word per path table, garbage in allocatable frames); page-table indices (511,510,1,0)"
    //@ obligation C09 C09.translate_page_4kib.shape_p1_leaf.writes_nothing tier=thorough bounded="pool of 7 tables (4 path + 3 allocatable); tree-shaped sparse pre-state (target path, one neighbour word per path table, garbage in allocatable frames); page-table indices (511,510,1,0)"
    //@ obligation C09 C09.translate_page_4kib.shape_p1_leaf.no_frames_requested_or_zeroed tier=thorough bounded="pool of 7 tables (4 path + 3 allocatable); tree-shaped sparse pre-state (target path, one neighbour word per path table, garbage in allocatable frames); page-table indices (511,510,1,0)"
    //@ obligation C09 C09.translate_page_4kib.shape_p1_leaf.no_access_outside_page_tables tier=thorough bounded="pool of 7 tables (4 path + 3 allocatable); tree-shaped sparse pre-state (target path, one neighbour word per path table, garbage in allocatable frames); page-table indices (511,510,1,0)"
    #[kani::proof]
    #[kani::stub(PageTable::zero, zero_stub)]
    fn c01_translate_page_4kib_p1_leaf_hi() {
        translate_page_step!(Size4KiB, "4kib", "p1_leaf", P1_LEAF, IDX_HI);
        kani::cover!(true, "c01_translate_page_4kib_p1_leaf_hi: reachable");
    }

    //@ obligation C01 C01.translate_page_4kib.shape_p1_leaf.agrees_with_walk tier=thorough bounded="pool of 7 tables (4 path + 3 allocatable); tree-shaped sparse pre-state (target path, one neighbour word per path table, garbage in allocatable frames); page-table indices (255,511,0,256)"
    //@ obligation C02 C02.translate_page_4kib.shape_p1_leaf.documented_outcome tier=thorough bounded="pool of 7 tables (4 path + 3 allocatable); tree-shaped sparse pre-state (target path, one neighbour word per path table, garbage in allocatable frames); page-table indices (255,511,0,256)"
    //@ obligation C09 C09.translate_page_4kib.shape_p1_leaf.writes_nothing tier=thorough bounded="pool of 7 tables (4 path + 3 allocatable); tree-shaped sparse pre-state (target path, one neighbour word per path table, garbage in allocatable frames); page-table indices (255,511,0,256)"
    //@ obligation C09 C09.translate_page_4kib.shape_p1_leaf.no_frames_requested_or_zeroed tier=thorough bounded="pool of 7 tables (4 path + 3 allocatable); tree-shaped sparse pre-state (target path, one neighbour word per path table, garbage in allocatable frames); page-table indices (255,511,0,256)"
    //@ obligation C09 C09.translate_page_4kib.shape_p1_leaf.no_access_outside_page_tables tier=thorough bounded="pool of 7 tables (4 path + 3 allocatable); tree-shaped sparse pre-state (target path, one neighbour word per path table, garbage in allocatable frames); page-table indices (255,511,0,256)"
    #[kani::proof]
    #[kani::stub(PageTable::zero, zero_stub)]
    fn c01_translate_page_4kib_p1_leaf_mid() {
        translate_page_step!(Size4KiB, "4kib", "p1_leaf", P1_LEAF, IDX_MID);
        kani::cover!(true, "c01_translate_page_4kib_p1_leaf_mid: reachable");
    }

    //@ obligation C01 C01.translate_page_4kib.shape_p1_leaf.agrees_with_walk bounded="pool of 7 tables (4 path + 3 allocatable); tree-shaped sparse pre-state (target path, one neighbour word per path table, garbage in allocatable frames); page-table indices (256,0,510,511)"
    //@ obligation C02 C02.translate_page_4kib.shape_p1_leaf.documented_outcome bounded="pool of 7 tables (4 path + 3 allocatable); tree-shaped sparse pre-state (target path, one neighbour word per path table, garbage in allocatable frames); page-table indices (256,0,510,511)"
    //@ obligation C09 C09.translate_page_4kib.shape_p1_leaf.writes_nothing bounded="pool of 7 tables (4 path + 3 allocatable); tree-shaped sparse pre-state (target path, one neighbour word per path table, garbage in allocatable frames); page-table indices (256,0,510,511)"
    //@ obligation C09 C09.translate_page_4kib.shape_p1_leaf.no_frames_requested_or_zeroed bounded="pool of 7 tables (4 path + 3 allocatable); tree-shaped sparse pre-state (target path, one neighbour word per path table, garbage in allocatable frames); page-table indices (256,0,510,511)"
    //@ obligation C09 C09.translate_page_4kib.shape_p1_leaf.no_access_outside_page_tables bounded="pool of 7 tables (4 path + 3 allocatable); tree-shaped sparse pre-state (target path, one neighbour word per path table, garbage in allocatable frames); page-table indices (256,0,510,511)"
    #[kani::proof]
    #[kani::stub(PageTable::zero, zero_stub)]
    fn c01_translate_page_4kib_p1_leaf_up() {
        translate_page_step!(Size4KiB, "4kib", "p1_leaf", P1_LEAF, IDX_UP);
        kani::cover!(true, "c01_translate_page_4kib_p1_leaf_up: reachable");
    }

    //@ obligation C01 C01.translate_page_4kib.shape_sym.agrees_with_walk bounded="pool of 7 tables (4 path + 3 allocatable); tree-shaped sparse pre-state (target path, one neighbour word per path table, garbage in allocatable frames); page-table indices (0,1,511,2)"
    //@ obligation C02 C02.translate_page_4kib.shape_sym.documented_outcome bounded="pool of 7 tables (4 path + 3 allocatable); tree-shaped sparse pre-state (target path, one neighbour word per path table, garbage in allocatable frames); page-table indices (0,1,511,2)"
    //@ obligation C09 C09.translate_page_4kib.shape_sym.writes_nothing bounded="pool of 7 tables (4 path + 3 allocatable); tree-shaped sparse pre-state (target path, one neighbour word per path table, garbage in allocatable frames); page-table indices (0,1,511,2)"
    //@ obligation C09 C09.translate_page_4kib.shape_sym.no_frames_requested_or_zeroed bounded="pool of 7 tables (4 path + 3 allocatable); tree-shaped sparse pre-state (target path, one neighbour word per path table, garbage in allocatable frames); page-table indices (0,1,511,2)"
    //@ obligation C09 C09.translate_page_4kib.shape_sym.no_access_outside_page_tables bounded="pool of 7 tables (4 path + 3 allocatable); tree-shaped sparse pre-state (target path, one neighbour word per path table, garbage in allocatable frames); page-table indices (0,1,511,2)"
    #[kani::proof]
    #[kani::stub(PageTable::zero, zero_stub)]
    fn c01_translate_page_4kib_sym_lo() {
        translate_page_step!(Size4KiB, "4kib", "sym", P1_SYM, IDX_LO);
        kani::cover!(true, "c01_translate_page_4kib_sym_lo: reachable");
    }

    //@ obligation C01 C01.translate_page_4kib.shape_sym.agrees_with_walk tier=thorough bounded="pool of 7 tables (4 path + 3 allocatable); tree-shaped sparse pre-state (target path, one neighbour word per path table, garbage in allocatable frames); page-table indices (511,510,1,0)"
    //@ obligation C02 C02.translate_page_4kib.shape_sym.documented_outcome tier=thorough bounded="pool of 7 tables (4 path + 3 allocatable); tree-shaped sparse pre-state (target path, one neighbour word per path table, garbage in allocatable frames); page-table indices (511,510,1,0)"
    //@ obligation C09 C09.translate_page_4kib.shape_sym.writes_nothing tier=thorough bounded="pool of 7 tables (4 path + 3 allocatable); tree-shaped sparse pre-state (target path, one neighbour word per path table, garbage in allocatable frames); page-table indices (511,510,1,0)"
    //@ obligation C09 C09.translate_page_4kib.shape_sym.no_frames_requested_or_zeroed tier=thorough bounded="pool of 7 tables (4 path + 3 allocatable); tree-shaped sparse pre-state (target path, one neighbour word per path table, garbage in allocatable frames); page-table indices (511,510,1,0)"
    //@ obligation C09 C09.translate_page_4kib.shape_sym.no_access_outside_page_tables tier=thorough bounded="pool of 7 tables (4 path + 3 allocatable); tree-shaped sparse pre-state (target path, one neighbour word per path table, garbage in allocatable frames); page-table indices (511,510,1,0)"
    #[kani::proof]
    #[kani::stub(PageTable::zero, zero_stub)]
    fn c01_translate_page_4kib_sym_hi() {
        translate_page_step!(Size4KiB, "4kib", "sym", P1_SYM, IDX_HI);
        kani::cover!(true, "c01_translate_page_4kib_sym_hi: reachable");
    }

    //@ obligation C01 C01.translate_page_4kib.shape_sym.agrees_with_walk tier=thorough bounded="pool of 7 tables (4 path + 3 allocatable); tree-shaped sparse pre-state (target path, one neighbour word per path table, garbage in allocatable frames); page-table indices (255,511,0,256)"
    //@ obligation C02 C02.translate_page_4kib.shape_sym.documented_outcome tier=thorough bounded="pool of 7 tables (4 path + 3 allocatable); tree-shaped sparse pre-state (target path, one neighbour word per path table, garbage in allocatable frames); page-table indices (255,511,0,256)"
    //@ obligation C09 C09.translate_page_4kib.shape_sym.writes_nothing tier=thorough bounded="pool of 7 tables (4 path + 3 allocatable); tree-shaped sparse pre-state (target path, one neighbour word per path table, garbage in allocatable frames); page-table indices (255,511,0,256)"
    //@ obligation C09 C09.translate_page_4kib.shape_sym.no_frames_requested_or_zeroed tier=thorough bounded="pool of 7 tables (4 path + 3 allocatable); tree-shaped sparse pre-state (target path, one neighbour word per path table, garbage in allocatable frames); page-table indices (255,511,0,256)"
    //@ obligation C09 C09.translate_page_4kib.shape_sym.no_access_outside_page_tables tier=thorough bounded="pool of 7 tables (4 path + 3 allocatable); tree-shaped sparse pre-state (target path, one neighbour word per path table, garbage in allocatable frames); page-table indices (255,511,0,256)"
    #[kani::proof]
    #[kani::stub(PageTable::zero, zero_stub)]
    fn c01_translate_page_4kib_sym_mid() {
        translate_page_step!(Size4KiB, "4kib", "sym", P1_SYM, IDX_MID);
        kani::cover!(true, "c01_translate_page_4kib_sym_mid: reachable");
    }

    //@ obligation C01 C01.translate_page_4kib.shape_sym.agrees_with_walk tier=thorough bounded="pool of 7 tables (4 path + 3 allocatable); tree-shaped sparse pre-state (target path, one neighbour word per path table, garbage in allocatable frames); page-table indices (256,0,510,511)"
    //@ obligation C02 C02.translate_page_4kib.shape_sym.documented_outcome tier=thorough bounded="pool of 7 tables (4 path + 3 allocatable); tree-shaped sparse pre-state (target path, one neighbour word per path table, garbage in allocatable frames); page-table indices (256,0,510,511)"
    //@ obligation C09 C09.translate_page_4kib.shape_sym.writes_nothing tier=thorough bounded="pool of 7 tables (4 path + 3 allocatable); tree-shaped sparse pre-state (target path, one neighbour word per path table, garbage in allocatable frames); page-table indices (256,0,510,511)"
    //@ obligation C09 C09.translate_page_4kib.shape_sym.no_frames_requested_or_zeroed tier=thorough bounded="pool of 7 tables (4 path + 3 allocatable); tree-shaped sparse pre-state (target path, one neighbour word per path table, garbage in allocatable frames); page-table indices (256,0,510,511)"
    //@ obligation C09 C09.translate_page_4kib.shape_sym.no_access_outside_page_tables tier=thorough bounded="pool of 7 tables (4 path + 3 allocatable); tree-shaped sparse pre-state (target path, one neighbour word per path table, garbage in allocatable frames); page-table indices (256,0,510,511)"
    #[kani::proof]
    #[kani::stub(PageTable::zero, zero_stub)]
    fn c01_translate_page_4kib_sym_up() {
        translate_page_step!(Size4KiB, "4kib", "sym", P1_SYM, IDX_UP);
        kani::cover!(true, "c01_translate_page_4kib_sym_up: reachable");
    }

    //@ obligation C01 C01.translate_page_2mib.shape_p4_absent.agrees_with_walk tier=thorough bounded="pool of 7 tables (4 path + 3 allocatable); tree-shaped sparse pre-state (target path, one neighbour word per path table, garbage in allocatable frames); page-table indices (0,1,511,2)"
    //@ obligation C02 C02.translate_page_2mib.shape_p4_absent.documented_outcome tier=thorough bounded="pool of 7 tables (4 path + 3 allocatable); tree-shaped sparse pre-state (target path, one neighbour word per path table, garbage in allocatable frames); page-table indices (0,1,511,2)"
    //@ obligation C09 C09.translate_page_2mib.shape_p4_absent.writes_nothing tier=thorough bounded="pool of 7 tables (4 path + 3 allocatable); tree-shaped sparse pre-state (target path, one neighbour word per path table, garbage in allocatable frames); page-table indices (0,1,511,2)"
    //@ obligation C09 C09.translate_page_2mib.shape_p4_absent.no_frames_requested_or_zeroed tier=thorough bounded="pool of 7 tables (4 path + 3 allocatable); tree-shaped sparse pre-state (target path, one neighbour word per path table, garbage in allocatable frames); page-table indices (0,1,511,2)"
    //@ obligation C09 C09.translate_page_2mib.shape_p4_absent.no_access_outside_page_tables tier=thorough bounded="pool of 7 tables (4 path + 3 allocatable); tree-shaped sparse pre-state (target path, one neighbour word per path table, garbage in allocatable frames); page-table indices (0,1,511,2)"
    #[kani::proof]
    #[kani::stub(PageTable::zero, zero_stub)]
    fn c01_translate_page_2mib_p4_absent_lo() {
        translate_page_step!(Size2MiB, "2mib", "p4_absent", P4_ABSENT, IDX_LO);
        kani::cover!(true, "c01_translate_page_2mib_p4_absent_lo: reachable");
    }

    //@ obligation C01 C01.translate_page_2mib.shape_p4_absent.agrees_with_walk tier=thorough bounded="pool of 7 tables (4 path + 3 allocatable); tree-shaped sparse pre-state (target path, one neighbour word per path table, garbage in allocatable frames); page-table indices (511,510,1,0)"
    //@ obligation C02 C02.translate_page_2mib.shape_p4_absent.documented_outcome tier=thorough bounded="pool of 7 tables (4 path + 3 allocatable); tree-shaped sparse pre-state (target path, one neighbour word per path table, garbage in allocatable frames); page-table indices (511,510,1,0)"
    //@ obligation C09 C09.translate_page_2mib.shape_p4_absent.writes_nothing tier=thorough bounded="pool of 7 tables (4 path + 3 allocatable); tree-shaped sparse pre-state (target path, one neighbour word per path table, garbage in allocatable frames); page-table indices (511,510,1,0)"
    //@ obligation C09 C09.translate_page_2mib.shape_p4_absent.no_frames_requested_or_zeroed tier=thorough bounded="pool of 7 tables (4 path + 3 allocatable); tree-shaped sparse pre-state (target path, one neighbour word per path table, garbage in allocatable frames); page-table indices (511,510,1,0)"
    //@ obligation C09 C09.translate_page_2mib.shape_p4_absent.no_access_outside_page_tables tier=thorough bounded="pool of 7 tables (4 path + 3 allocatable); tree-shaped sparse pre-state (target path, one neighbour word per path table, garbage in allocatable frames); page-table indices (511,510,1,0)"
    #[kani::proof]
    #[kani::stub(PageTable::zero, zero_stub)]
    fn c01_translate_page_2mib_p4_absent_hi() {
        translate_page_step!(Size2MiB, "2mib", "p4_absent", P4_ABSENT, IDX_HI);
        kani::cover!(true, "c01_translate_page_2mib_p4_absent_hi: reachable");
    }

    //@ obligation C01 C01.translate_page_2mib.shape_p4_absent.agrees_with_walk bounded="pool of 7 tables (4 path + 3 allocatable); tree-shaped sparse pre-state (target path, one neighbour word per path table, garbage in allocatable frames); page-table indices (255,511,0,256)"
    //@ obligation C02 C02.translate_page_2mib.shape_p4_absent.documented_outcome bounded="pool of 7 tables (4 path + 3 allocatable); tree-shaped sparse pre-state (target path, one neighbour word per path table, garbage in allocatable frames); page-table indices (255,511,0,256)"
    //@ obligation C09 C09.translate_page_2mib.shape_p4_absent.writes_nothing bounded="pool of 7 tables (4 path + 3 allocatable); tree-shaped sparse pre-state (target path, one neighbour word per path table, garbage in allocatable frames); page-table indices (255,511,0,256)"
    //@ obligation C09 C09.translate_page_2mib.shape_p4_absent.no_frames_requested_or_zeroed bounded="pool of 7 tables (4 path + 3 allocatable); tree-shaped sparse pre-state (target path, one neighbour word per path table, garbage in allocatable frames); page-table indices (255,511,0,256)"
    //@ obligation C09 C09.translate_page_2mib.shape_p4_absent.no_access_outside_page_tables bounded="pool of 7 tables (4 path + 3 allocatable); tree-shaped sparse pre-state (target path, one neighbour word per path table, garbage in allocatable frames); page-table indices (255,511,0,256)"
    #[kani::proof]
    #[kani::stub(PageTable::zero, zero_stub)]
    fn c01_translate_page_2mib_p4_absent_mid() {
        translate_page_step!(Size2MiB, "2mib", "p4_absent", P4_ABSENT, IDX_MID);
        kani::cover!(true, "c01_translate_page_2mib_p4_absent_mid: reachable");
    }

    //@ obligation C01 C01.translate_page_2mib.shape_p4_absent.agrees_with_walk tier=thorough bounded="pool of 7 tables (4 path + 3 allocatable); tree-shaped sparse pre-state (target path, one neighbour word per path table, garbage in allocatable frames); page-table indices (256,0,510,511)"
    //@ obligation C02 C02.translate_page_2mib.shape_p4_absent.documented_outcome tier=thorough bounded="pool of 7 tables (4 path + 3 allocatable); tree-shaped sparse pre-state (target path, one neighbour word per path table, garbage in allocatable frames); page-table indices (256,0,510,511)"
    //@ obligation C09 C09.translate_page_2mib.shape_p4_absent.writes_nothing tier=thorough bounded="pool of 7 tables (4 path + 3 allocatable); tree-shaped sparse pre-state (target path, one neighbour word per path table, garbage in allocatable frames); page-table indices (256,0,510,511)"
    //@ obligation C09 C09.translate_page_2mib.shape_p4_absent.no_frames_requested_or_zeroed tier=thorough bounded="pool of 7 tables (4 path + 3 allocatable); tree-shaped sparse pre-state (target path, one neighbour word per path table, garbage in allocatable frames); page-table indices (256,0,510,511)"
    //@ obligation C09 C09.translate_page_2mib.shape_p4_absent.no_access_outside_page_tables tier=thorough bounded="pool of 7 tables (4 path + 3 allocatable); tree-shaped sparse pre-state (target path, one neighbour word per path table, garbage in allocatable frames); page-table indices (256,0,510,511)"
    #[kani::proof]
    #[kani::stub(PageTable::zero, zero_stub)]
    fn c01_translate_page_2mib_p4_absent_up() {
        translate_page_step!(Size2MiB, "2mib", "p4_absent", P4_ABSENT, IDX_UP);
        kani::cover!(true, "c01_translate_page_2mib_p4_absent_up: reachable");
    }

    //@ obligation C01 C01.translate_page_2mib.shape_p3_absent.agrees_with_walk tier=thorough bounded="pool of 7 tables (4 path + 3 allocatable); tree-shaped sparse pre-state (target path, one neighbour word per path table, garbage in allocatable frames); page-table indices (0,1,511,2)"
    //@ obligation C02 C02.translate_page_2mib.shape_p3_absent.documented_outcome tier=thorough bounded="pool of 7 tables (4 path + 3 allocatable); tree-shaped sparse pre-state (target path, one neighbour word per path table, garbage in allocatable frames); page-table indices (0,1,511,2)"
    //@ obligation C09 C09.translate_page_2mib.shape_p3_absent.writes_nothing tier=thorough bounded="pool of 7 tables (4 path + 3 allocatable); tree-shaped sparse pre-state (target path, one neighbour word per path table, garbage in allocatable frames); page-table indices (0,1,511,2)"
    //@ obligation C09 C09.translate_page_2mib.shape_p3_absent.no_frames_requested_or_zeroed tier=thorough bounded="pool of 7 tables (4 path + 3 allocatable); tree-shaped sparse pre-state (target path, one neighbour word per path table, garbage in allocatable frames); page-table indices (0,1,511,2)"
    //@ obligation C09 C09.translate_page_2mib.shape_p3_absent.no_access_outside_page_tables tier=thorough bounded="pool of 7 tables (4 path + 3 allocatable); tree-shaped sparse pre-state (target path, one neighbour word per path table, garbage in allocatable frames); page-table indices (0,1,511,2)"
    #[kani::proof]
    #[kani::stub(PageTable::zero, zero_stub)]
    fn c01_translate_page_2mib_p3_absent_lo() {
        translate_page_step!(Size2MiB, "2mib", "p3_absent", P3_ABSENT, IDX_LO);
        kani::cover!(true, "c01_translate_page_2mib_p3_absent_lo: reachable");
    }

    //@ obligation C01 C01.translate_page_2mib.shape_p3_absent.agrees_with_walk bounded="pool of 7 tables (4 path + 3 allocatable); tree-shaped sparse pre-state (target path, one neighbour word per path table, garbage in allocatable frames); page-table indices (511,510,1,0)"
    //@ obligation C02 C02.translate_page_2mib.shape_p3_absent.documented_outcome bounded="pool of 7 tables (4 path + 3 allocatable); tree-shaped sparse pre-state (target path, one neighbour word per path table, garbage in allocatable frames); page-table indices (511,510,1,0)"
    //@ obligation C09 C09.translate_page_2mib.shape_p3_absent.writes_nothing bounded="pool of 7 tables (4 path + 3 allocatable); tree-shaped sparse pre-state (target path, one neighbour word per path table, garbage in allocatable frames); page-table indices (511,510,1,0)"
    //@ obligation C09 C09.translate_page_2mib.shape_p3_absent.no_frames_requested_or_zeroed bounded="pool of 7 tables (4 path + 3 allocatable); tree-shaped sparse pre-state (target path, one neighbour word per path table, garbage in allocatable frames); page-table indices (511,510,1,0)"
    //@ obligation C09 C09.translate_page_2mib.shape_p3_absent.no_access_outside_page_tables bounded="pool of 7 tables (4 path + 3 allocatable); tree-shaped sparse pre-state (target path, one neighbour word per path table, garbage in allocatable frames); page-table indices (511,510,1,0)"
    #[kani::proof]
    #[kani::stub(PageTable::zero, zero_stub)]
    fn c01_translate_page_2mib_p3_absent_hi() {
        translate_page_step!(Size2MiB, "2mib", "p3_absent", P3_ABSENT, IDX_HI);
        kani::cover!(true, "c01_translate_page_2mib_p3_absent_hi: reachable");
    }

    //@ obligation C01 C01.translate_page_2mib.shape_p3_absent.agrees_with_walk tier=thorough bounded="pool of 7 tables (4 path + 3 allocatable); tree-shaped sparse pre-state (target path, one neighbour word per path table, garbage in allocatable frames); page-table indices (255,511,0,256)"
    //@ obligation C02 C02.translate_page_2mib.shape_p3_absent.documented_outcome tier=thorough bounded="pool of 7 tables (4 path + 3 allocatable); tree-shaped sparse pre-state (target path, one neighbour word per path table, garbage in allocatable frames); page-table indices (255,511,0,256)"
    //@ obligation C09 C09.translate_page_2mib.shape_p3_absent.writes_nothing tier=thorough bounded="pool of 7 tables (4 path + 3 allocatable); tree-shaped sparse pre-state (target path, one neighbour word per path table, garbage in allocatable frames); page-table indices (255,511,0,256)"
    //@ obligation C09 C09.translate_page_2mib.shape_p3_absent.no_frames_requested_or_zeroed tier=thorough bounded="pool of 7 tables (4 path + 3 allocatable); tree-shaped sparse pre-state (target path, one neighbour word per path table, garbage in allocatable frames); page-table indices (255,511,0,256)"
    //@ obligation C09 C09.translate_page_2mib.shape_p3_absent.no_access_outside_page_tables tier=thorough bounded="pool of 7 tables (4 path + 3 allocatable); tree-shaped sparse pre-state (target path, one neighbour word per path table, garbage in allocatable frames); page-table indices (255,511,0,256)"
    #[kani::proof]
    #[kani::stub(PageTable::zero, zero_stub)]
    fn c01_translate_page_2mib_p3_absent_mid() {
        translate_page_step!(Size2MiB, "2mib", "p3_absent", P3_ABSENT, IDX_MID);
        kani::cover!(true, "c01_translate_page_2mib_p3_absent_mid: reachable");
    }

    //@ obligation C01 C01.translate_page_2mib.shape_p3_absent.agrees_with_walk tier=thorough bounded="pool of 7 tables (4 path + 3 allocatable); tree-shaped sparse pre-state (target path, one neighbour word per path table, garbage in allocatable frames); page-table indices (256,0,510,511)"
    //@ obligation C02 C02.translate_page_2mib.shape_p3_absent.documented_outcome tier=thorough bounded="pool of 7 tables (4 path + 3 allocatable); tree-shaped sparse pre-state (target path, one neighbour word per path table, garbage in allocatable frames); page-table indices (256,0,510,511)"
    //@ obligation C09 C09.translate_page_2mib.shape_p3_absent.writes_nothing tier=thorough bounded="pool of 7 tables (4 path + 3 allocatable); tree-shaped sparse pre-state (target path, one neighbour word per path table, garbage in allocatable frames); page-table indices (256,0,510,511)"
    //@ obligation C09 C09.translate_page_2mib.shape_p3_absent.no_frames_requested_or_zeroed tier=thorough bounded="pool of 7 tables (4 path + 3 allocatable); tree-shaped sparse pre-state (target path, one neighbour word per path table, garbage in allocatable frames); page-table indices (256,0,510,511)"
    //@ obligation C09 C09.translate_page_2mib.shape_p3_absent.no_access_outside_page_tables tier=thorough bounded="pool of 7 tables (4 path + 3 allocatable); tree-shaped sparse pre-state (target path, one neighbour word per path table, garbage in allocatable frames); page-table indices (256,0,510,511)"
    #[kani::proof]
    #[kani::stub(PageTable::zero, zero_stub)]
    fn c01_translate_page_2mib_p3_absent_up() {
        translate_page_step!(Size2MiB, "2mib", "p3_absent", P3_ABSENT, IDX_UP);
        kani::cover!(true, "c01_translate_page_2mib_p3_absent_up: reachable");
    }

    //@ obligation C01 C01.translate_page_2mib.shape_p3_huge.agrees_with_walk tier=thorough bounded="pool of 7 tables (4 path + 3 allocatable); tree-shaped sparse pre-state (target path, one neighbour word per path table, garbage in allocatable frames); page-table indices (0,1,511,2)"
    //@ obligation C02 C02.translate_page_2mib.shape_p3_huge.documented_outcome tier=thorough bounded="pool of 7 tables (4 path + 3 allocatable); tree-shaped sparse pre-state (target path, one neighbour word per path table, garbage in allocatable frames); page-table indices (0,1,511,2)"
    //@ obligation C09 C09.translate_page_2mib.shape_p3_huge.writes_nothing tier=thorough bounded="pool of 7 tables (4 path + 3 allocatable); tree-shaped sparse pre-state (target path, one neighbour word per path table, garbage in allocatable frames); page-table indices (0,1,511,2)"
    //@ obligation C09 C09.translate_page_2mib.shape_p3_huge.no_frames_requested_or_zeroed tier=thorough bounded="pool of 7 tables (4 path + 3 allocatable); tree-shaped sparse pre-state (target path, one neighbour word per path table, garbage in allocatable frames); page-table indices (0,1,511,2)"
    //@ obligation C09 C09.translate_page_2mib.shape_p3_huge.no_access_outside_page_tables tier=thorough bounded="pool of 7 tables (4 path + 3 allocatable); tree-shaped sparse pre-state (target path, one neighbour word per path table, garbage in allocatable frames); page-table indices (0,1,511,2)"
    #[kani::proof]
    #[kani::stub(PageTable::zero, zero_stub)]
    fn c01_translate_page_2mib_p3_huge_lo() {
        translate_page_step!(Size2MiB, "2mib", "p3_huge", P3_HUGE, IDX_LO);
        kani::cover!(true, "c01_translate_page_2mib_p3_huge_lo: reachable");
    }

    //@ obligation C01 C01.translate_page_2mib.shape_p3_huge.agrees_with_walk tier=thorough bounded="pool of 7 tables (4 path + 3 allocatable); tree-shaped sparse pre-state (target path, one neighbour word per path table, garbage in allocatable frames); page-table indices (511,510,1,0)"
    //@ obligation C02 C02.translate_page_2mib.shape_p3_huge.documented_outcome tier=thorough bounded="pool of 7 tables (4 path + 3 allocatable); tree-shaped sparse pre-state (target path, one neighbour word per path table, garbage in allocatable frames); page-table indices (511,510,1,0)"
    //@ obligation C09 C09.translate_page_2mib.shape_p3_huge.writes_nothing tier=thorough bounded="pool of 7 tables (4 path + 3 allocatable); tree-shaped sparse pre-state (target path, one neighbour word per path table, garbage in allocatable frames); page-table indices (511,510,1,0)"
    //@ obligation C09 C09.translate_page_2mib.shape_p3_huge.no_frames_requested_or_zeroed tier=thorough bounded="pool of 7 tables (4 path + 3 allocatable); tree-shaped sparse pre-state (target path, one neighbour word per path table, garbage in allocatable frames); page-table indices (511,510,1,0)"
    //@ obligation C09 C09.translate_page_2mib.shape_p3_huge.no_access_outside_page_tables tier=thorough bounded="pool of 7 tables (4 path + 3 allocatable); tree-shaped sparse pre-state (target path, one neighbour word per path table, garbage in allocatable frames); page-table indices (511,510,1,0)"
    #[kani::proof]
    #[kani::stub(PageTable::zero, zero_stub)]
    fn c01_translate_page_2mib_p3_huge_hi() {
        translate_page_step!(Size2MiB, "2mib", "p3_huge", P3_HUGE, IDX_HI);
        kani::cover!(true, "c01_translate_page_2mib_p3_huge_hi: reachable");
    }

    //@ obligation C01 C01.translate_page_2mib.shape_p3_huge.agrees_with_walk bounded="pool of 7 tables (4 path + 3 allocatable); tree-shaped sparse pre-state (target path, one neighbour word per path table, garbage in allocatable frames); page-table indices (255,511,0,256)"
    //@ obligation C02 C02.translate_page_2mib.shape_p3_huge.documented_outcome bounded="pool of 7 tables (4 path + 3 allocatable); tree-shaped sparse pre-state (target path, one neighbour word per path table, garbage in allocatable frames); page-table indices (255,511,0,256)"
    //@ obligation C09 C09.translate_page_2mib.shape_p3_huge.writes_nothing bounded="pool of 7 tables (4 path + 3 allocatable); tree-shaped sparse pre-state (target path, one neighbour word per path table, garbage in allocatable frames); page-table indices (255,511,0,256)"
    //@ obligation C09 C09.translate_page_2mib.shape_p3_huge.no_frames_requested_or_zeroed bounded="pool of 7 tables (4 path + 3 allocatable); tree-shaped sparse pre-state (target path, one neighbour word per path table, garbage in allocatable frames); page-table indices (255,511,0,256)"
    //@ obligation C09 C09.translate_page_2mib.shape_p3_huge.no_access_outside_page_tables bounded="pool of 7 tables (4 path + 3 allocatable); tree-shaped sparse pre-state (target path, one neighbour word per path table, garbage in allocatable frames); page-table indices (255,511,0,256)"
    #[kani::proof]
    #[kani::stub(PageTable::zero, zero_stub)]
    fn c01_translate_page_2mib_p3_huge_mid() {
        translate_page_step!(Size2MiB, "2mib", "p3_huge", P3_HUGE, IDX_MID);
        kani::cover!(true, "c01_translate_page_2mib_p3_huge_mid: reachable");
    }

    //@ obligation C01 C01.translate_page_2mib.shape_p3_huge.agrees_with_walk tier=thorough bounded="pool of 7 tables (4 path + 3 allocatable); tree-shaped sparse pre-state (target path, one neighbour word per path table, garbage in allocatable frames); page-table indices (256,0,510,511)"
    //@ obligation C02 C02.translate_page_2mib.shape_p3_huge.documented_outcome tier=thorough bounded="pool of 7 tables (4 path + 3 allocatable); tree-shaped sparse pre-state (target path, one neighbour word per path table, garbage in allocatable frames); page-table indices (256,0,510,511)"
    //@ obligation C09 C09.translate_page_2mib.shape_p3_huge.writes_nothing tier=thorough bounded="pool of 7 tables (4 path + 3 allocatable); tree-shaped sparse pre-state (target path, one neighbour word per path table, garbage in allocatable frames); page-table indices (256,0,510,511)"
    //@ obligation C09 C09.translate_page_2mib.shape_p3_huge.no_frames_requested_or_zeroed tier=thorough bounded="pool of 7 tables (4 path + 3 allocatable); tree-shaped sparse pre-state (target path, one neighbour word per path table, garbage in allocatable frames); page-table indices (256,0,510,511)"
    //@ obligation C09 C09.translate_page_2mib.shape_p3_huge.no_access_outside_page_tables tier=thorough bounded="pool of 7 tables (4 path + 3 allocatable); tree-shaped sparse pre-state (target path, one neighbour word per path table, garbage in allocatable frames); page-table indices (256,0,510,511)"
    #[kani::proof]
    #[kani::stub(PageTable::zero, zero_stub)]
    fn c01_translate_page_2mib_p3_huge_up() {
        translate_page_step!(Size2MiB, "2mib", "p3_huge", P3_HUGE, IDX_UP);
        kani::cover!(true, "c01_translate_page_2mib_p3_huge_up: reachable");
    }

    //@ obligation C01 C01.translate_page_2mib.shape_p2_absent.agrees_with_walk tier=thorough bounded="pool of 7 tables (4 path + 3 allocatable); tree-shaped sparse pre-state (target path, one neighbour word per path table, garbage in allocatable frames); page-table indices (0,1,511,2)"
    //@ obligation C02 C02.translate_page_2mib.shape_p2_absent.documented_outcome tier=thorough bounded="pool of 7 tables (4 path + 3 allocatable); tree-shaped sparse pre-state (target path, one neighbour word per path table, garbage in allocatable frames); page-table indices (0,1,511,2)"
    //@ obligation C09 C09.translate_page_2mib.shape_p2_absent.writes_nothing tier=thorough bounded="pool of 7 tables (4 path + 3 allocatable); tree-shaped sparse pre-state (target path, one neighbour word per path table, garbage in allocatable frames); page-table indices (0,1,511,2)"
    //@ obligation C09 C09.translate_page_2mib.shape_p2_absent.no_frames_requested_or_zeroed tier=thorough bounded="pool of 7 tables (4 path + 3 allocatable); tree-shaped sparse pre-state (target path, one neighbour word per path table, garbage in allocatable frames); page-table indices (0,1,511,2)"
    //@ obligation C09 C09.translate_page_2mib.shape_p2_absent.no_access_outside_page_tables tier=thorough bounded="pool of 7 tables (4 path + 3 allocatable); tree-shaped sparse pre-state (target path, one neighbour word per path table, garbage in allocatable frames); page-table indices (0,1,511,2)"
    #[kani::proof]
    #[kani::stub(PageTable::zero, zero_stub)]
    fn c01_translate_page_2mib_p2_absent_lo() {
        translate_page_step!(Size2MiB, "2mib", "p2_absent", P2_ABSENT, IDX_LO);
        kani::cover!(true, "c01_translate_page_2mib_p2_absent_lo: reachable");
    }

    //@ obligation C01 C01.translate_page_2mib.shape_p2_absent.agrees_with_walk bounded="pool of 7 tables (4 path + 3 allocatable); tree-shaped sparse pre-state (target path, one neighbour word per path table, garbage in allocatable frames); page-table indices (511,510,1,0)"
    //@ obligation C02 C02.translate_page_2mib.shape_p2_absent.documented_outcome bounded="pool of 7 tables (4 path + 3 allocatable); tree-shaped sparse pre-state (target path, one neighbour word per path table, garbage in allocatable frames); page-table indices (511,510,1,0)"
    //@ obligation C09 C09.translate_page_2mib.shape_p2_absent.writes_nothing bounded="pool of 7 tables (4 path + 3 allocatable); tree-shaped sparse pre-state (target path, one neighbour word per path table, garbage in allocatable frames); page-table indices (511,510,1,0)"
    //@ obligation C09 C09.translate_page_2mib.shape_p2_absent.no_frames_requested_or_zeroed bounded="pool of 7 tables (4 path + 3 allocatable); tree-shaped sparse pre-state (target path, one neighbour word per path table, garbage in allocatable frames); page-table indices (511,510,1,0)"
    //@ obligation C09 C09.translate_page_2mib.shape_p2_absent.no_access_outside_page_tables bounded="pool of 7 tables (4 path + 3 allocatable); tree-shaped sparse pre-state (target path, one neighbour word per path table, garbage in allocatable frames); page-table indices (511,510,1,0)"
    #[kani::proof]
    #[kani::stub(PageTable::zero, zero_stub)]
    fn c01_translate_page_2mib_p2_absent_hi() {
        translate_page_step!(Size2MiB, "2mib", "p2_absent", P2_ABSENT, IDX_HI);
        kani::cover!(true, "c01_translate_page_2mib_p2_absent_hi: reachable");
    }

    //@ obligation C01 C01.translate_page_2mib.shape_p2_absent.agrees_with_walk tier=thorough bounded="pool of 7 tables (4 path + 3 allocatable); tree-shaped sparse pre-state (target path, one neighbour word per path table, garbage in allocatable frames); page-table indices (255,511,0,256)"
    //@ obligation C02 C02.translate_page_2mib.shape_p2_absent.documented_outcome tier=thorough bounded="pool of 7 tables (4 path + 3 allocatable); tree-shaped sparse pre-state (target path, one neighbour word per path table, garbage in allocatable frames); page-table indices (255,511,0,256)"
    //@ obligation C09 C09.translate_page_2mib.shape_p2_absent.writes_nothing tier=thorough bounded="pool of 7 tables (4 path + 3 allocatable); tree-shaped sparse pre-state (target path, one neighbour word per path table, garbage in allocatable frames); page-table indices (255,511,0,256)"
    //@ obligation C09 C09.translate_page_2mib.shape_p2_absent.no_frames_requested_or_zeroed tier=thorough bounded="pool of 7 tables (4 path + 3 allocatable); tree-shaped sparse pre-state (target path, one neighbour word per path table, garbage in allocatable frames); page-table indices (255,511,0,256)"
    //@ obligation C09 C09.translate_page_2mib.shape_p2_absent.no_access_outside_page_tables tier=thorough bounded="pool of 7 tables (4 path + 3 allocatable); tree-shaped sparse pre-state (target path, one neighbour word per path table, garbage in allocatable frames); page-table indices (255,511,0,256)"
    #[kani::proof]
    #[kani::stub(PageTable::zero, zero_stub)]
    fn c01_translate_page_2mib_p2_absent_mid() {
        translate_page_step!(Size2MiB, "2mib", "p2_absent", P2_ABSENT, IDX_MID);
        kani::cover!(true, "c01_translate_page_2mib_p2_absent_mid: reachable");
    }

    //@ obligation C01 C01.translate_page_2mib.shape_p2_absent.agrees_with_walk tier=thorough bounded="pool of 7 tables (4 path + 3 allocatable); tree-shaped sparse pre-state (target path, one neighbour word per path table, garbage in allocatable frames); page-table indices (256,0,510,511)"
    //@ obligation C02 C02.translate_page_2mib.shape_p2_absent.documented_outcome tier=thorough bounded="pool of 7 tables (4 path + 3 allocatable); tree-shaped sparse pre-state (target path, one neighbour word per path table, garbage in allocatable frames); page-table indices (256,0,510,511)"
    //@ obligation C09 C09.translate_page_2mib.shape_p2_absent.writes_nothing tier=thorough bounded="pool of 7 tables (4 path + 3 allocatable); tree-shaped sparse pre-state (target path, one neighbour word per path table, garbage in allocatable frames); page-table indices (256,0,510,511)"
    //@ obligation C09 C09.translate_page_2mib.shape_p2_absent.no_frames_requested_or_zeroed tier=thorough bounded="pool of 7 tables (4 path + 3 allocatable); tree-shaped sparse pre-state (target path, one neighbour word per path table, garbage in allocatable frames); page-table indices (256,0,510,511)"
    //@ obligation C09 C09.translate_page_2mib.shape_p2_absent.no_access_outside_page_tables tier=thorough bounded="pool of 7 tables (4 path + 3 allocatable); tree-shaped sparse pre-state (target path, one neighbour word per path table, garbage in allocatable frames); page-table indices (256,0,510,511)"
    #[kani::proof]
    #[kani::stub(PageTable::zero, zero_stub)]
    fn c01_translate_page_2mib_p2_absent_up() {
        translate_page_step!(Size2MiB, "2mib", "p2_absent", P2_ABSENT, IDX_UP);
        kani::cover!(true, "c01_translate_page_2mib_p2_absent_up: reachable");
    }

    //@ obligation C01 C01.translate_page_2mib.shape_p2_huge.agrees_with_walk tier=thorough bounded="pool of 7 tables (4 path + 3 allocatable); tree-shaped sparse pre-state (target path, one neighbour word per path table, garbage in allocatable frames); page-table indices (0,1,511,2)"
    //@ obligation C02 C02.translate_page_2mib.shape_p2_huge.documented_outcome tier=thorough bounded="pool of 7 tables (4 path + 3 allocatable); tree-shaped sparse pre-state (target path, one neighbour word per path table, garbage in allocatable frames); page-table indices (0,1,511,2)"
    //@ obligation C09 C09.translate_page_2mib.shape_p2_huge.writes_nothing tier=thorough bounded="pool of 7 tables (4 path + 3 allocatable); tree-shaped sparse pre-state (target path, one neighbour word per path table, garbage in allocatable frames); page-table indices (0,1,511,2)"
    //@ obligation C09 C09.translate_page_2mib.shape_p2_huge.no_frames_requested_or_zeroed tier=thorough bounded="pool of 7 tables (4 path + 3 allocatable); tree-shaped sparse pre-state (target path, one neighbour word per path table, garbage in allocatable frames); page-table indices (0,1,511,2)"
    //@ obligation C09 C09.translate_page_2mib.shape_p2_huge.no_access_outside_page_tables tier=thorough bounded="pool of 7 tables (4 path + 3 allocatable); tree-shaped sparse pre-state (target path, one neighbour word per path table, garbage in allocatable frames); page-table indices (0,1,511,2)"
    #[kani::proof]
    #[kani::stub(PageTable::zero, zero_stub)]
    fn c01_translate_page_2mib_p2_huge_lo() {
        translate_page_step!(Size2MiB, "2mib", "p2_huge", P2_HUGE, IDX_LO);
        kani::cover!(true, "c01_translate_page_2mib_p2_huge_lo: reachable");
    }

    //@ obligation C01 C01.translate_page_2mib.shape_p2_huge.agrees_with_walk tier=thorough bounded="pool of 7 tables (4 path + 3 allocatable); tree-shaped sparse pre-state (target path, one neighbour word per path table, garbage in allocatable frames); page-table indices (511,510,1,0)"
    //@ obligation C02 C02.translate_page_2mib.shape_p2_huge.documented_outcome tier=thorough bounded="pool of 7 tables (4 path + 3 allocatable); tree-shaped sparse pre-state (target path, one neighbour word per path table, garbage in allocatable frames); page-table indices (511,510,1,0)"
    //@ obligation C09 C09.translate_page_2mib.shape_p2_huge.writes_nothing tier=thorough bounded="pool of 7 tables (4 path + 3 allocatable); tree-shaped sparse pre-state (target path, one neighbour word per path table, garbage in allocatable frames); page-table indices (511,510,1,0)"
    //@ obligation C09 C09.translate_page_2mib.shape_p2_huge.no_frames_requested_or_zeroed tier=thorough bounded="pool of 7 tables (4 path + 3 allocatable); tree-shaped sparse pre-state (target path, one neighbour word per path table, garbage in allocatable frames); page-table indices (511,510,1,0)"
    //@ obligation C09 C09.translate_page_2mib.shape_p2_huge.no_access_outside_page_tables tier=thorough bounded="pool of 7 tables (4 path + 3 allocatable); tree-shaped sparse pre-state (target path, one neighbour word per path table, garbage in allocatable frames); page-table indices (511,510,1,0)"
    #[kani::proof]
    #[kani::stub(PageTable::zero, zero_stub)]
    fn c01_translate_page_2mib_p2_huge_hi() {
        translate_page_step!(Size2MiB, "2mib", "p2_huge", P2_HUGE, IDX_HI);
        kani::cover!(true, "c01_translate_page_2mib_p2_huge_hi: reachable");
    }

    //@ obligation C01 C01.translate_page_2mib.shape_p2_huge.agrees_with_walk tier=thorough bounded="pool of 7 tables (4 path + 3 allocatable); tree-shaped sparse pre-state (target path, one neighbour word per path table, garbage in allocatable frames); page-table indices (255,511,0,256)"
    //@ obligation C02 C02.translate_page_2mib.shape_p2_huge.documented_outcome tier=thorough bounded="pool of 7 tables (4 path + 3 allocatable); tree-shaped sparse pre-state (target path, one neighbour word per path table, garbage in allocatable frames); page-table indices (255,511,0,256)"
    //@ obligation C09 C09.translate_page_2mib.shape_p2_huge.writes_nothing tier=thorough bounded="pool of 7 tables (4 path + 3 allocatable); tree-shaped sparse pre-state (target path, one neighbour word per path table, garbage in allocatable frames); page-table indices (255,511,0,256)"
    //@ obligation C09 C09.translate_page_2mib.shape_p2_huge.no_frames_requested_or_zeroed tier=thorough bounded="pool of 7 tables (4 path + 3 allocatable); tree-shaped sparse pre-state (target path, one neighbour word per path table, garbage in allocatable frames); page-table indices (255,511,0,256)"
    //@ obligation C09 C09.translate_page_2mib.shape_p2_huge.no_access_outside_page_tables tier=thorough bounded="pool of 7 tables (4 path + 3 allocatable); tree-shaped sparse pre-state (target path, one neighbour word per path table, garbage in allocatable frames); page-table indices (255,511,0,256)"
    #[kani::proof]
    #[kani::stub(PageTable::zero, zero_stub)]
    fn c01_translate_page_2mib_p2_huge_mid() {
        translate_page_step!(Size2MiB, "2mib", "p2_huge", P2_HUGE, IDX_MID);
        kani::cover!(true, "c01_translate_page_2mib_p2_huge_mid: reachable");
    }

    //@ obligation C01 C01.translate_page_2mib.shape_p2_huge.agrees_with_walk bounded="pool of 7 tables (4 path + 3 allocatable); tree-shaped sparse pre-state (target path, one neighbour word per path table, garbage in allocatable frames); page-table indices (256,0,510,511)"
    //@ obligation C02 C02.translate_page_2mib.shape_p2_huge.documented_outcome bounded="pool of 7 tables (4 path + 3 allocatable); tree-shaped sparse pre-state (target path, one neighbour word per path table, garbage in allocatable frames); page-table indices (256,0,510,511)"
    //@ obligation C09 C09.translate_page_2mib.shape_p2_huge.writes_nothing bounded="pool of 7 tables (4 path + 3 allocatable); tree-shaped sparse pre-state (target path, one neighbour word per path table, garbage in allocatable frames); page-table indices (256,0,510,511)"
    //@ obligation C09 C09.translate_page_2mib.shape_p2_huge.no_frames_requested_or_zeroed bounded="pool of 7 tables (4 path + 3 allocatable); tree-shaped sparse pre-state (target path, one neighbour word per path table, garbage in allocatable frames); page-table indices (256,0,510,511)"
    //@ obligation C09 C09.translate_page_2mib.shape_p2_huge.no_access_outside_page_tables bounded="pool of 7 tables (4 path + 3 allocatable); tree-shaped sparse pre-state (target path, one neighbour word per path table, garbage in allocatable frames); page-table indices (256,0,510,511)"
    #[kani::proof]
    #[kani::stub(PageTable::zero, zero_stub)]
    fn c01_translate_page_2mib_p2_huge_up() {
        translate_page_step!(Size2MiB, "2mib", "p2_huge", P2_HUGE, IDX_UP);
        kani::cover!(true, "c01_translate_page_2mib_p2_huge_up: reachable");
    }

    //@ obligation C02 C02.translate_page_2mib.shape_table_entry.no_success_for_nonexistent_size tier=thorough bounded="pool of 7 tables (4 path + 3 allocatable); tree-shaped sparse pre-state (target path, one neighbour word per path table, garbage in allocatable frames); page-table indices (0,1,511,2)"
    //@ obligation C02 C02.translate_page_2mib.shape_table_entry.documented_outcome tier=thorough bounded="pool of 7 tables (4 path + 3 allocatable); tree-shaped sparse pre-state (target path, one neighbour word per path table, garbage in allocatable frames); page-table indices (0,1,511,2)"
    //@ obligation C09 C09.translate_page_2mib.shape_table_entry.writes_nothing tier=thorough bounded="pool of 7 tables (4 path + 3 allocatable); tree-shaped sparse pre-state (target path, one neighbour word per path table, garbage in allocatable frames); page-table indices (0,1,511,2)"
    //@ obligation C09 C09.translate_page_2mib.shape_table_entry.no_frames_requested_or_zeroed tier=thorough bounded="pool of 7 tables (4 path + 3 allocatable); tree-shaped sparse pre-state (target path, one neighbour word per path table, garbage in allocatable frames); page-table indices (0,1,511,2)"
    //@ obligation C09 C09.translate_page_2mib.shape_table_entry.no_access_outside_page_tables tier=thorough bounded="pool of 7 tables (4 path + 3 allocatable); tree-shaped sparse pre-state (target path, one neighbour word per path table, garbage in allocatable frames); page-table indices (0,1,511,2)"
    #[kani::proof]
    #[kani::stub(PageTable::zero, zero_stub)]
    fn c02_translate_page_2mib_table_entry_lo() {
        translate_page_step!(Size2MiB, "2mib", "table_entry", P2_TABLE, IDX_LO);
        kani::cover!(true, "c02_translate_page_2mib_table_entry_lo: reachable");
    }

    //@ obligation C02 C02.translate_page_2mib.shape_table_entry.no_success_for_nonexistent_size tier=thorough bounded="pool of 7 tables (4 path + 3 allocatable); tree-shaped sparse pre-state (target path, one neighbour word per path table, garbage in allocatable frames); page-table indices (511,510,1,0)"
    //@ obligation C02 C02.translate_page_2mib.shape_table_entry.documented_outcome tier=thorough bounded="pool of 7 tables (4 path + 3 allocatable); tree-shaped sparse pre-state (target path, one neighbour word per path table, garbage in allocatable frames); page-table indices (511,510,1,0)"
    //@ obligation C09 C09.translate_page_2mib.shape_table_entry.writes_nothing tier=thorough bounded="pool of 7 tables (4 path + 3 allocatable); tree-shaped sparse pre-state (target path, one neighbour word per path table, garbage in allocatable frames); page-table indices (511,510,1,0)"
    //@ obligation C09 C09.translate_page_2mib.shape_table_entry.no_frames_requested_or_zeroed tier=thorough bounded="pool of 7 tables (4 path + 3 allocatable); tree-shaped sparse pre-state (target path, one neighbour word per path table, garbage in allocatable frames); page-table indices (511,510,1,0)"
    //@ obligation C09 C09.translate_page_2mib.shape_table_entry.no_access_outside_page_tables tier=thorough bounded="pool of 7 tables (4 path + 3 allocatable); tree-shaped sparse pre-state (target path, one neighbour word per path table, garbage in allocatable frames); page-table indices (511,510,1,0)"
    #[kani::proof]
    #[kani::stub(PageTable::zero, zero_stub)]
    fn c02_translate_page_2mib_table_entry_hi() {
        translate_page_step!(Size2MiB, "2mib", "table_entry", P2_TABLE, IDX_HI);
        kani::cover!(true, "c02_translate_page_2mib_table_entry_hi: reachable");
    }

    //@ obligation C02 C02.translate_page_2mib.shape_table_entry.no_success_for_nonexistent_size tier=thorough bounded="pool of 7 tables (4 path + 3 allocatable); tree-shaped sparse pre-state (target path, one neighbour word per path table, garbage in allocatable frames); page-table indices (255,511,0,256)"
    //@ obligation C02 C02.translate_page_2mib.shape_table_entry.documented_outcome tier=thorough bounded="pool of 7 tables (4 path + 3 allocatable); tree-shaped sparse pre-state (target path, one neighbour word per path table, garbage in allocatable frames); page-table indices (255,511,0,256)"
    //@ obligation C09 C09.translate_page_2mib.shape_table_entry.writes_nothing tier=thorough bounded="pool of 7 tables (4 path + 3 allocatable); tree-shaped sparse pre-state (target path, one neighbour word per path table, garbage in allocatable frames); page-table indices (255,511,0,256)"
    //@ obligation C09 C09.translate_page_2mib.shape_table_entry.no_frames_requested_or_zeroed tier=thorough bounded="pool of 7 tables (4 path + 3 allocatable); tree-shaped sparse pre-state (target path, one neighbour word per path table, garbage in allocatable frames); page-table indices (255,511,0,256)"
    //@ obligation C09 C09.translate_page_2mib.shape_table_entry.no_access_outside_page_tables tier=thorough bounded="pool of 7 tables (4 path + 3 allocatable); tree-shaped sparse pre-state (target path, one neighbour word per path table, garbage in allocatable frames); page-table indices (255,511,0,256)"
    #[kani::proof]
    #[kani::stub(PageTable::zero, zero_stub)]
    fn c02_translate_page_2mib_table_entry_mid() {
        translate_page_step!(Size2MiB, "2mib", "table_entry", P2_TABLE, IDX_MID);
        kani::cover!(true, "c02_translate_page_2mib_table_entry_mid: reachable");
    }

    //@ obligation C02 C02.translate_page_2mib.shape_table_entry.no_success_for_nonexistent_size bounded="pool of 7 tables (4 path + 3 allocatable); tree-shaped sparse pre-state (target path, one neighbour word per path table, garbage in allocatable frames); page-table indices (256,0,510,511)"
    //@ obligation C02 C02.translate_page_2mib.shape_table_entry.documented_outcome bounded="pool of 7 tables (4 path + 3 allocatable); tree-shaped sparse pre-state (target path, one neighbour word per path table, garbage in allocatable frames); page-table indices (256,0,510,511)"
    //@ obligation C09 C09.translate_page_2mib.shape_table_entry.writes_nothing bounded="pool of 7 tables (4 path + 3 allocatable); tree-shaped sparse pre-state (target path, one neighbour word per path table, garbage in allocatable frames); page-table indices (256,0,510,511)"
    //@ obligation C09 C09.translate_page_2mib.shape_table_entry.no_frames_requested_or_zeroed bounded="pool of 7 tables (4 path + 3 allocatable); tree-shaped sparse pre-state (target path, one neighbour word per path table, garbage in allocatable frames); page-table indices (256,0,510,511)"
    //@ obligation C09 C09.translate_page_2mib.shape_table_entry.no_access_outside_page_tables bounded="pool of 7 tables (4 path + 3 allocatable); tree-shaped sparse pre-state (target path, one neighbour word per path table, garbage in allocatable frames); page-table indices (256,0,510,511)"
    #[kani::proof]
    #[kani::stub(PageTable::zero, zero_stub)]
    fn c02_translate_page_2mib_table_entry_up() {
        translate_page_step!(Size2MiB, "2mib", "table_entry", P2_TABLE, IDX_UP);
        kani::cover!(true, "c02_translate_page_2mib_table_entry_up: reachable");
    }

    //@ obligation C01 C01.translate_page_2mib.shape_sym.agrees_with_walk bounded="pool of 7 tables (4 path + 3 allocatable); tree-shaped sparse pre-state (target path, one neighbour word per path table, garbage in allocatable frames); page-table indices (0,1,511,2)"
    //@ obligation C02 C02.translate_page_2mib.shape_sym.documented_outcome bounded="pool of 7 tables (4 path + 3 allocatable); tree-shaped sparse pre-state (target path, one neighbour word per path table, garbage in allocatable frames); page-table indices (0,1,511,2)"
    //@ obligation C09 C09.translate_page_2mib.shape_sym.writes_nothing bounded="pool of 7 tables (4 path + 3 allocatable); tree-shaped sparse pre-state (target path, one neighbour word per path table, garbage in allocatable frames); page-table indices (0,1,511,2)"
    //@ obligation C09 C09.translate_page_2mib.shape_sym.no_frames_requested_or_zeroed bounded="pool of 7 tables (4 path + 3 allocatable); tree-shaped sparse pre-state (target path, one neighbour word per path table, garbage in allocatable frames); page-table indices (0,1,511,2)"
    //@ obligation C09 C09.translate_page_2mib.shape_sym.no_access_outside_page_tables bounded="pool of 7 tables (4 path + 3 allocatable); tree-shaped sparse pre-state (target path, one neighbour word per path table, garbage in allocatable frames); page-table indices (0,1,511,2)"
    #[kani::proof]
    #[kani::stub(PageTable::zero, zero_stub)]
    fn c01_translate_page_2mib_sym_lo() {
        translate_page_step!(Size2MiB, "2mib", "sym", P2_SYM, IDX_LO);
        kani::cover!(true, "c01_translate_page_2mib_sym_lo: reachable");
    }

    //@ obligation C01 C01.translate_page_2mib.shape_sym.agrees_with_walk tier=thorough bounded="pool of 7 tables (4 path + 3 allocatable); tree-shaped sparse pre-state (target path, one neighbour word per path table, garbage in allocatable frames); page-table indices (511,510,1,0)"
    //@ obligation C02 C02.translate_page_2mib.shape_sym.documented_outcome tier=thorough bounded="pool of 7 tables (4 path + 3 allocatable); tree-shaped sparse pre-state (target path, one neighbour word per path table, garbage in allocatable frames); page-table indices (511,510,1,0)"
    //@ obligation C09 C09.translate_page_2mib.shape_sym.writes_nothing tier=thorough bounded="pool of 7 tables (4 path + 3 allocatable); tree-shaped sparse pre-state (target path, one neighbour word per path table, garbage in allocatable frames); page-table indices (511,510,1,0)"
    //@ obligation C09 C09.translate_page_2mib.shape_sym.no_frames_requested_or_zeroed tier=thorough bounded="pool of 7 tables (4 path + 3 allocatable); tree-shaped sparse pre-state (target path, one neighbour word per path table, garbage in allocatable frames); page-table indices (511,510,1,0)"
    //@ obligation C09 C09.translate_page_2mib.shape_sym.no_access_outside_page_tables tier=thorough bounded="pool of 7 tables (4 path + 3 allocatable); tree-shaped sparse pre-state (target path, one neighbour word per path table, garbage in allocatable frames); page-table indices (511,510,1,0)"
    #[kani::proof]
    #[kani::stub(PageTable::zero, zero_stub)]
    fn c01_translate_page_2mib_sym_hi() {
        translate_page_step!(Size2MiB, "2mib", "sym", P2_SYM, IDX_HI);
        kani::cover!(true, "c01_translate_page_2mib_sym_hi: reachable");
    }

    //@ obligation C01 C01.translate_page_2mib.shape_sym.agrees_with_walk tier=thorough bounded="pool of 7 tables (4 path + 3 allocatable); tree-shaped sparse pre-state (target path, one neighbour word per path table, garbage in allocatable frames); page-table indices (255,511,0,256)"
    //@ obligation C02 C02.translate_page_2mib.shape_sym.documented_outcome tier=thorough bounded="pool of 7 tables (4 path + 3 allocatable); tree-shaped sparse pre-state (target path, one neighbour word per path table, garbage in allocatable frames); page-table indices (255,511,0,256)"
    //@ obligation C09 C09.translate_page_2mib.shape_sym.writes_nothing tier=thorough bounded="pool of 7 tables (4 path + 3 allocatable); tree-shaped sparse pre-state (target path, one neighbour word per path table, garbage in allocatable frames); page-table indices (255,511,0,256)"
    //@ obligation C09 C09.translate_page_2mib.shape_sym.no_frames_requested_or_zeroed tier=thorough bounded="pool of 7 tables (4 path + 3 allocatable); tree-shaped sparse pre-state (target path, one neighbour word per path table, garbage in allocatable frames); page-table indices (255,511,0,256)"
    //@ obligation C09 C09.translate_page_2mib.shape_sym.no_access_outside_page_tables tier=thorough bounded="pool of 7 tables (4 path + 3 allocatable); tree-shaped sparse pre-state (target path, one neighbour word per path table, garbage in allocatable frames); page-table indices (255,511,0,256)"
    #[kani::proof]
    #[kani::stub(PageTable::zero, zero_stub)]
    fn c01_translate_page_2mib_sym_mid() {
        translate_page_step!(Size2MiB, "2mib", "sym", P2_SYM, IDX_MID);
        kani::cover!(true, "c01_translate_page_2mib_sym_mid: reachable");
    }

    //@ obligation C01 C01.translate_page_2mib.shape_sym.agrees_with_walk tier=thorough bounded="pool of 7 tables (4 path + 3 allocatable); tree-shaped sparse pre-state (target path, one neighbour word per path table, garbage in allocatable frames); page-table indices (256,0,510,511)"
    //@ obligation C02 C02.translate_page_2mib.shape_sym.documented_outcome tier=thorough bounded="pool of 7 tables (4 path + 3 allocatable); tree-shaped sparse pre-state (target path, one neighbour word per path table, garbage in allocatable frames); page-table indices (256,0,510,511)"
    //@ obligation C09 C09.translate_page_2mib.shape_sym.writes_nothing tier=thorough bounded="pool of 7 tables (4 path + 3 allocatable); tree-shaped sparse pre-state (target path, one neighbour word per path table, garbage in allocatable frames); page-table indices (256,0,510,511)"
    //@ obligation C09 C09.translate_page_2mib.shape_sym.no_frames_requested_or_zeroed tier=thorough bounded="pool of 7 tables (4 path + 3 allocatable); tree-shaped sparse pre-state (target path, one neighbour word per path table, garbage in allocatable frames); page-table indices (256,0,510,511)"
    //@ obligation C09 C09.translate_page_2mib.shape_sym.no_access_outside_page_tables tier=thorough bounded="pool of 7 tables (4 path + 3 allocatable); tree-shaped sparse pre-state (target path, one neighbour word per path table, garbage in allocatable frames); page-table indices (256,0,510,511)"
    #[kani::proof]
    #[kani::stub(PageTable::zero, zero_stub)]
    fn c01_translate_page_2mib_sym_up() {
        translate_page_step!(Size2MiB, "2mib", "sym", P2_SYM, IDX_UP);
        kani::cover!(true, "c01_translate_page_2mib_sym_up: reachable");
    }

    //@ obligation C01 C01.translate_page_1gib.shape_p4_absent.agrees_with_walk bounded="pool of 7 tables (4 path + 3 allocatable); tree-shaped sparse pre-state (target path, one neighbour word per path table, garbage in allocatable frames); page-table indices (0,1,511,2)"
    //@ obligation C02 C02.translate_page_1gib.shape_p4_absent.documented_outcome bounded="pool of 7 tables (4 path + 3 allocatable); tree-shaped sparse pre-state (target path, one neighbour word per path table, garbage in allocatable frames); page-table indices (0,1,511,2)"
    //@ obligation C09 C09.translate_page_1gib.shape_p4_absent.writes_nothing bounded="pool of 7 tables (4 path + 3 allocatable); tree-shaped sparse pre-state (target path, one neighbour word per path table, garbage in allocatable frames); page-table indices (0,1,511,2)"
    //@ obligation C09 C09.translate_page_1gib.shape_p4_absent.no_frames_requested_or_zeroed bounded="pool of 7 tables (4 path + 3 allocatable); tree-shaped sparse pre-state (target path, one neighbour word per path table, garbage in allocatable frames); page-table indices (0,1,511,2)"
    //@ obligation C09 C09.translate_page_1gib.shape_p4_absent.no_access_outside_page_tables bounded="pool of 7 tables (4 path + 3 allocatable); tree-shaped sparse pre-state (target path, one neighbour word per path table, garbage in allocatable frames); page-table indices (0,1,511,2)"
    #[kani::proof]
    #[kani::stub(PageTable::zero, zero_stub)]
    fn c01_translate_page_1gib_p4_absent_lo() {
        translate_page_step!(Size1GiB, "1gib", "p4_absent", P4_ABSENT, IDX_LO);
        kani::cover!(true, "c01_translate_page_1gib_p4_absent_lo: reachable");
    }

    //@ obligation C01 C01.translate_page_1gib.shape_p4_absent.agrees_with_walk tier=thorough bounded="pool of 7 tables (4 path + 3 allocatable); tree-shaped sparse pre-state (target path, one neighbour word per path table, garbage in allocatable frames); page-table indices (511,510,1,0)"
    //@ obligation C02 C02.translate_page_1gib.shape_p4_absent.documented_outcome tier=thorough bounded="pool of 7 tables (4 path + 3 allocatable); tree-shaped sparse pre-state (target path, one neighbour word per path table, garbage in allocatable frames); page-table indices (511,510,1,0)"
    //@ obligation C09 C09.translate_page_1gib.shape_p4_absent.writes_nothing tier=thorough bounded="pool of 7 tables (4 path + 3 allocatable); tree-shaped sparse pre-state (target path, one neighbour word per path table, garbage in allocatable frames); page-table indices (511,510,1,0)"
    //@ obligation C09 C09.translate_page_1gib.shape_p4_absent.no_frames_requested_or_zeroed tier=thorough bounded="pool of 7 tables (4 path + 3 allocatable); tree-shaped sparse pre-state (target path, one neighbour word per path table, garbage in allocatable frames); page-table indices (511,510,1,0)"
    //@ obligation C09 C09.translate_page_1gib.shape_p4_absent.no_access_outside_page_tables tier=thorough bounded="pool of 7 tables (4 path + 3 allocatable); tree-shaped sparse pre-state (target path, one neighbour word per path table, garbage in allocatable frames); page-table indices (511,510,1,0)"
    #[kani::proof]
    #[kani::stub(PageTable::zero, zero_stub)]
    fn c01_translate_page_1gib_p4_absent_hi() {
        translate_page_step!(Size1GiB, "1gib", "p4_absent", P4_ABSENT, IDX_HI);
        kani::cover!(true, "c01_translate_page_1gib_p4_absent_hi: reachable");
    }

    //@ obligation C01 C01.translate_page_1gib.shape_p4_absent.agrees_with_walk tier=thorough bounded="pool of 7 tables (4 path + 3 allocatable); tree-shaped sparse pre-state (target path, one neighbour word per path table, garbage in allocatable frames); page-table indices (255,511,0,256)"
    //@ obligation C02 C02.translate_page_1gib.shape_p4_absent.documented_outcome tier=thorough bounded="pool of 7 tables (4 path + 3 allocatable); tree-shaped sparse pre-state (target path, one neighbour word per path table, garbage in allocatable frames); page-table indices (255,511,0,256)"
    //@ obligation C09 C09.translate_page_1gib.shape_p4_absent.writes_nothing tier=thorough bounded="pool of 7 tables (4 path + 3 allocatable); tree-shaped sparse pre-state (target path, one neighbour word per path table, garbage in allocatable frames); page-table indices (255,511,0,256)"
    //@ obligation C09 C09.translate_page_1gib.shape_p4_absent.no_frames_requested_or_zeroed tier=thorough bounded="pool of 7 tables (4 path + 3 allocatable); tree-shaped sparse pre-state (target path, one neighbour word per path table, garbage in allocatable frames); page-table indices (255,511,0,256)"
    //@ obligation C09 C09.translate_page_1gib.shape_p4_absent.no_access_outside_page_tables tier=thorough bounded="pool of 7 tables (4 path + 3 allocatable); tree-shaped sparse pre-state (target path, one neighbour word per path table, garbage in allocatable frames); page-table indices (255,511,0,256)"
    #[kani::proof]
    #[kani::stub(PageTable::zero, zero_stub)]
    fn c01_translate_page_1gib_p4_absent_mid() {
        translate_page_step!(Size1GiB, "1gib", "p4_absent", P4_ABSENT, IDX_MID);
        kani::cover!(true, "c01_translate_page_1gib_p4_absent_mid: reachable");
    }

    //@ obligation C01 C01.translate_page_1gib.shape_p4_absent.agrees_with_walk tier=thorough bounded="pool of 7 tables (4 path + 3 allocatable); tree-shaped sparse pre-state (target path, one neighbour word per path table, garbage in allocatable frames); page-table indices (256,0,510,511)"
    //@ obligation C02 C02.translate_page_1gib.shape_p4_absent.documented_outcome tier=thorough bounded="pool of 7 tables (4 path + 3 allocatable); tree-shaped sparse pre-state (target path, one neighbour word per path table, garbage in allocatable frames); page-table indices (256,0,510,511)"
    //@ obligation C09 C09.translate_page_1gib.shape_p4_absent.writes_nothing tier=thorough bounded="pool of 7 tables (4 path + 3 allocatable); tree-shaped sparse pre-state (target path, one neighbour word per path table, garbage in allocatable frames); page-table indices (256,0,510,511)"
    //@ obligation C09 C09.translate_page_1gib.shape_p4_absent.no_frames_requested_or_zeroed tier=thorough bounded="pool of 7 tables (4 path + 3 allocatable); tree-shaped sparse pre-state (target path, one neighbour word per path table, garbage in allocatable frames); page-table indices (256,0,510,511)"
    //@ obligation C09 C09.translate_page_1gib.shape_p4_absent.no_access_outside_page_tables tier=thorough bounded="pool of 7 tables (4 path + 3 allocatable); tree-shaped sparse pre-state (target path, one neighbour word per path table, garbage in allocatable frames); page-table indices (256,0,510,511)"
    #[kani::proof]
    #[kani::stub(PageTable::zero, zero_stub)]
    fn c01_translate_page_1gib_p4_absent_up() {
        translate_page_step!(Size1GiB, "1gib", "p4_absent", P4_ABSENT, IDX_UP);
        kani::cover!(true, "c01_translate_page_1gib_p4_absent_up: reachable");
    }

    //@ obligation C01 C01.translate_page_1gib.shape_p3_absent.agrees_with_walk bounded="pool of 7 tables (4 path + 3 allocatable); tree-shaped sparse pre-state (target path, one neighbour word per path table, garbage in allocatable frames); page-table indices (0,1,511,2)"
    //@ obligation C02 C02.translate_page_1gib.shape_p3_absent.documented_outcome bounded="pool of 7 tables (4 path + 3 allocatable); tree-shaped sparse pre-state (target path, one neighbour word per path table, garbage in allocatable frames); page-table indices (0,1,511,2)"
    //@ obligation C09 C09.translate_page_1gib.shape_p3_absent.writes_nothing bounded="pool of 7 tables (4 path + 3 allocatable); tree-shaped sparse pre-state (target path, one neighbour word per path table, garbage in allocatable frames); page-table indices (0,1,511,2)"
    //@ obligation C09 C09.translate_page_1gib.shape_p3_absent.no_frames_requested_or_zeroed bounded="pool of 7 tables (4 path + 3 allocatable); tree-shaped sparse pre-state (target path, one neighbour word per path table, garbage in allocatable frames); page-table indices (0,1,511,2)"
    //@ obligation C09 C09.translate_page_1gib.shape_p3_absent.no_access_outside_page_tables bounded="pool of 7 tables (4 path + 3 allocatable); tree-shaped sparse pre-state (target path, one neighbour word per path table, garbage in allocatable frames); page-table indices (0,1,511,2)"
    #[kani::proof]
    #[kani::stub(PageTable::zero, zero_stub)]
    fn c01_translate_page_1gib_p3_absent_lo() {
        translate_page_step!(Size1GiB, "1gib", "p3_absent", P3_ABSENT, IDX_LO);
        kani::cover!(true, "c01_translate_page_1gib_p3_absent_lo: reachable");
    }

    //@ obligation C01 C01.translate_page_1gib.shape_p3_absent.agrees_with_walk tier=thorough bounded="pool of 7 tables (4 path + 3 allocatable); tree-shaped sparse pre-state (target path, one neighbour word per path table, garbage in allocatable frames); page-table indices (511,510,1,0)"
    //@ obligation C02 C02.translate_page_1gib.shape_p3_absent.documented_outcome tier=thorough bounded="pool of 7 tables (4 path + 3 allocatable); tree-shaped sparse pre-state (target path, one neighbour word per path table, garbage in allocatable frames); page-table indices (511,510,1,0)"
    //@ obligation C09 C09.translate_page_1gib.shape_p3_absent.writes_nothing tier=thorough bounded="pool of 7 tables (4 path + 3 allocatable); tree-shaped sparse pre-state (target path, one neighbour word per path table, garbage in allocatable frames); page-table indices (511,510,1,0)"
    //@ obligation C09 C09.translate_page_1gib.shape_p3_absent.no_frames_requested_or_zeroed tier=thorough bounded="pool of 7 tables (4 path + 3 allocatable); tree-shaped sparse pre-state (target path, one neighbour word per path table, garbage in allocatable frames); page-table indices (511,510,1,0)"
    //@ obligation C09 C09.translate_page_1gib.shape_p3_absent.no_access_outside_page_tables tier=thorough bounded="pool of 7 tables (4 path + 3 allocatable); tree-shaped sparse pre-state (target path, one neighbour word per path table, garbage in allocatable frames); page-table indices (511,510,1,0)"
    #[kani::proof]
    #[kani::stub(PageTable::zero, zero_stub)]
    fn c01_translate_page_1gib_p3_absent_hi() {
        translate_page_step!(Size1GiB, "1gib", "p3_absent", P3_ABSENT, IDX_HI);
        kani::cover!(true, "c01_translate_page_1gib_p3_absent_hi: reachable");
    }

    //@ obligation C01 C01.translate_page_1gib.shape_p3_absent.agrees_with_walk tier=thorough bounded="pool of 7 tables (4 path + 3 allocatable); tree-shaped sparse pre-state (target path, one neighbour word per path table, garbage in allocatable frames); page-table indices (255,511,0,256)"
    //@ obligation C02 C02.translate_page_1gib.shape_p3_absent.documented_outcome tier=thorough bounded="pool of 7 tables (4 path + 3 allocatable); tree-shaped sparse pre-state (target path, one neighbour word per path table, garbage in allocatable frames); page-table indices (255,511,0,256)"
    //@ obligation C09 C09.translate_page_1gib.shape_p3_absent.writes_nothing tier=thorough bounded="pool of 7 tables (4 path + 3 allocatable); tree-shaped sparse pre-state (target path, one neighbour word per path table, garbage in allocatable frames); page-table indices (255,511,0,256)"
    //@ obligation C09 C09.translate_page_1gib.shape_p3_absent.no_frames_requested_or_zeroed tier=thorough bounded="pool of 7 tables (4 path + 3 allocatable); tree-shaped sparse pre-state (target path, one neighbour word per path table, garbage in allocatable frames); page-table indices (255,511,0,256)"
    //@ obligation C09 C09.translate_page_1gib.shape_p3_absent.no_access_outside_page_tables tier=thorough bounded="pool of 7 tables (4 path + 3 allocatable); tree-shaped sparse pre-state (target path, one neighbour word per path table, garbage in allocatable frames); page-table indices (255,511,0,256)"
    #[kani::proof]
    #[kani::stub(PageTable::zero, zero_stub)]
    fn c01_translate_page_1gib_p3_absent_mid() {
        translate_page_step!(Size1GiB, "1gib", "p3_absent", P3_ABSENT, IDX_MID);
        kani::cover!(true, "c01_translate_page_1gib_p3_absent_mid: reachable");
    }

    //@ obligation C01 C01.translate_page_1gib.shape_p3_absent.agrees_with_walk tier=thorough bounded="pool of 7 tables (4 path + 3 allocatable); tree-shaped sparse pre-state (target path, one neighbour word per path table, garbage in allocatable frames); page-table indices (256,0,510,511)"
    //@ obligation C02 C02.translate_page_1gib.shape_p3_absent.documented_outcome tier=thorough bounded="pool of 7 tables (4 path + 3 allocatable); tree-shaped sparse pre-state (target path, one neighbour word per path table, garbage in allocatable frames); page-table indices (256,0,510,511)"
    //@ obligation C09 C09.translate_page_1gib.shape_p3_absent.writes_nothing tier=thorough bounded="pool of 7 tables (4 path + 3 allocatable); tree-shaped sparse pre-state (target path, one neighbour word per path table, garbage in allocatable frames); page-table indices (256,0,510,511)"
    //@ obligation C09 C09.translate_page_1gib.shape_p3_absent.no_frames_requested_or_zeroed tier=thorough bounded="pool of 7 tables (4 path + 3 allocatable); tree-shaped sparse pre-state (target path, one neighbour word per path table, garbage in allocatable frames); page-table indices (256,0,510,511)"
    //@ obligation C09 C09.translate_page_1gib.shape_p3_absent.no_access_outside_page_tables tier=thorough bounded="pool of 7 tables (4 path + 3 allocatable); tree-shaped sparse pre-state (target path, one neighbour word per path table, garbage in allocatable frames); page-table indices (256,0,510,511)"
    #[kani::proof]
    #[kani::stub(PageTable::zero, zero_stub)]
    fn c01_translate_page_1gib_p3_absent_up() {
        translate_page_step!(Size1GiB, "1gib", "p3_absent", P3_ABSENT, IDX_UP);
        kani::cover!(true, "c01_translate_page_1gib_p3_absent_up: reachable");
    }

    //@ obligation C01 C01.translate_page_1gib.shape_p3_huge.agrees_with_walk tier=thorough bounded="pool of 7 tables (4 path + 3 allocatable); tree-shaped sparse pre-state (target path, one neighbour word per path table, garbage in allocatable frames); page-table indices (0,1,511,2)"
    //@ obligation C02 C02.translate_page_1gib.shape_p3_huge.documented_outcome tier=thorough bounded="pool of 7 tables (4 path + 3 allocatable); tree-shaped sparse pre-state (target path, one neighbour word per path table, garbage in allocatable frames); page-table indices (0,1,511,2)"
    //@ obligation C09 C09.translate_page_1gib.shape_p3_huge.writes_nothing tier=thorough bounded="pool of 7 tables (4 path + 3 allocatable); tree-shaped sparse pre-state (target path, one neighbour word per path table, garbage in allocatable frames); page-table indices (0,1,511,2)"
    //@ obligation C09 C09.translate_page_1gib.shape_p3_huge.no_frames_requested_or_zeroed tier=thorough bounded="pool of 7 tables (4 path + 3 allocatable); tree-shaped sparse pre-state (target path, one neighbour word per path table, garbage in allocatable frames); page-table indices (0,1,511,2)"
    //@ obligation C09 C09.translate_page_1gib.shape_p3_huge.no_access_outside_page_tables tier=thorough bounded="pool of 7 tables (4 path + 3 allocatable); tree-shaped sparse pre-state (target path, one neighbour word per path table, garbage in allocatable frames); page-table indices (0,1,511,2)"
    #[kani::proof]
    #[kani::stub(PageTable::zero, zero_stub)]
    fn c01_translate_page_1gib_p3_huge_lo() {
        translate_page_step!(Size1GiB, "1gib", "p3_huge", P3_HUGE, IDX_LO);
        kani::cover!(true, "c01_translate_page_1gib_p3_huge_lo: reachable");
    }

    //@ obligation C01 C01.translate_page_1gib.shape_p3_huge.agrees_with_walk tier=thorough bounded="pool of 7 tables (4 path + 3 allocatable); tree-shaped sparse pre-state (target path, one neighbour word per path table, garbage in allocatable frames); page-table indices (511,510,1,0)"
    //@ obligation C02 C02.translate_page_1gib.shape_p3_huge.documented_outcome tier=thorough bounded="pool of 7 tables (4 path + 3 allocatable); tree-shaped sparse pre-state (target path, one neighbour word per path table, garbage in allocatable frames); page-table indices (511,510,1,0)"
    //@ obligation C09 C09.translate_page_1gib.shape_p3_huge.writes_nothing tier=thorough bounded="pool of 7 tables (4 path + 3 allocatable); tree-shaped sparse pre-state (target path, one neighbour word per path table, garbage in allocatable frames); page-table indices (511,510,1,0)"
    //@ obligation C09 C09.translate_page_1gib.shape_p3_huge.no_frames_requested_or_zeroed tier=thorough bounded="pool of 7 tables (4 path + 3 allocatable); tree-shaped sparse pre-state (target path, one neighbour word per path table, garbage in allocatable frames); page-table indices (511,510,1,0)"
    //@ obligation C09 C09.translate_page_1gib.shape_p3_huge.no_access_outside_page_tables tier=thorough bounded="pool of 7 tables (4 path + 3 allocatable); tree-shaped sparse pre-state (target path, one neighbour word per path table, garbage in allocatable frames); page-table indices (511,510,1,0)"
    #[kani::proof]
    #[kani::stub(PageTable::zero, zero_stub)]
    fn c01_translate_page_1gib_p3_huge_hi() {
        translate_page_step!(Size1GiB, "1gib", "p3_huge", P3_HUGE, IDX_HI);
        kani::cover!(true, "c01_translate_page_1gib_p3_huge_hi: reachable");
    }

    //@ obligation C01 C01.translate_page_1gib.shape_p3_huge.agrees_with_walk bounded="pool of 7 tables (4 path + 3 allocatable); tree-shaped sparse pre-state (target path, one neighbour word per path table, garbage in allocatable frames); page-table indices (255,511,0,256)"
    //@ obligation C02 C02.translate_page_1gib.shape_p3_huge.documented_outcome bounded="pool of 7 tables (4 path + 3 allocatable); tree-shaped sparse pre-state (target path, one neighbour word per path table, garbage in allocatable frames); page-table indices (255,511,0,256)"
    //@ obligation C09 C09.translate_page_1gib.shape_p3_huge.writes_nothing bounded="pool of 7 tables (4 path + 3 allocatable); tree-shaped sparse pre-state (target path, one neighbour word per path table, garbage in allocatable frames); page-table indices (255,511,0,256)"
    //@ obligation C09 C09.translate_page_1gib.shape_p3_huge.no_frames_requested_or_zeroed bounded="pool of 7 tables (4 path + 3 allocatable); tree-shaped sparse pre-state (target path, one neighbour word per path table, garbage in allocatable frames); page-table indices (255,511,0,256)"
    //@ obligation C09 C09.translate_page_1gib.shape_p3_huge.no_access_outside_page_tables bounded="pool of 7 tables (4 path + 3 allocatable); tree-shaped sparse pre-state (target path, one neighbour word per path table, garbage in allocatable frames); page-table indices (255,511,0,256)"
    #[kani::proof]
    #[kani::stub(PageTable::zero, zero_stub)]
    fn c01_translate_page_1gib_p3_huge_mid() {
        translate_page_step!(Size1GiB, "1gib", "p3_huge", P3_HUGE, IDX_MID);
        kani::cover!(true, "c01_translate_page_1gib_p3_huge_mid: reachable");
    }

    //@ obligation C01 C01.translate_page_1gib.shape_p3_huge.agrees_with_walk tier=thorough bounded="pool of 7 tables (4 path + 3 allocatable); tree-shaped sparse pre-state (target path, one neighbour word per path table, garbage in allocatable frames); page-table indices (256,0,510,511)"
    //@ obligation C02 C02.translate_page_1gib.shape_p3_huge.documented_outcome tier=thorough bounded="pool of 7 tables (4 path + 3 allocatable); tree-shaped sparse pre-state (target path, one neighbour word per path table, garbage in allocatable frames); page-table indices (256,0,510,511)"
    //@ obligation C09 C09.translate_page_1gib.shape_p3_huge.writes_nothing tier=thorough bounded="pool of 7 tables (4 path + 3 allocatable); tree-shaped sparse pre-state (target path, one neighbour word per path table, garbage in allocatable frames); page-table indices (256,0,510,511)"
    //@ obligation C09 C09.translate_page_1gib.shape_p3_huge.no_frames_requested_or_zeroed tier=thorough bounded="pool of 7 tables (4 path + 3 allocatable); tree-shaped sparse pre-state (target path, one neighbour word per path table, garbage in allocatable frames); page-table indices (256,0,510,511)"
    //@ obligation C09 C09.translate_page_1gib.shape_p3_huge.no_access_outside_page_tables tier=thorough bounded="pool of 7 tables (4 path + 3 allocatable); tree-shaped sparse pre-state (target path, one neighbour word per path table, garbage in allocatable frames); page-table indices (256,0,510,511)"
    #[kani::proof]
    #[kani::stub(PageTable::zero, zero_stub)]
    fn c01_translate_page_1gib_p3_huge_up() {
        translate_page_step!(Size1GiB, "1gib", "p3_huge", P3_HUGE, IDX_UP);
        kani::cover!(true, "c01_translate_page_1gib_p3_huge_up: reachable");
    }

    //@ obligation C02 C02.translate_page_1gib.shape_table_entry.no_success_for_nonexistent_size tier=thorough bounded="pool of 7 tables (4 path + 3 allocatable); tree-shaped sparse pre-state (target path, one neighbour word per path table, garbage in allocatable frames); page-table indices (0,1,511,2)"
    //@ obligation C02 C02.translate_page_1gib.shape_table_entry.documented_outcome tier=thorough bounded="pool of 7 tables (4 path + 3 allocatable); tree-shaped sparse pre-state (target path, one neighbour word per path table, garbage in allocatable frames); page-table indices (0,1,511,2)"
    //@ obligation C09 C09.translate_page_1gib.shape_table_entry.writes_nothing tier=thorough bounded="pool of 7 tables (4 path + 3 allocatable); tree-shaped sparse pre-state (target path, one neighbour word per path table, garbage in allocatable frames); page-table indices (0,1,511,2)"
    //@ obligation C09 C09.translate_page_1gib.shape_table_entry.no_frames_requested_or_zeroed tier=thorough bounded="pool of 7 tables (4 path + 3 allocatable); tree-shaped sparse pre-state (target path, one neighbour word per path table, garbage in allocatable frames); page-table indices (0,1,511,2)"
    //@ obligation C09 C09.translate_page_1gib.shape_table_entry.no_access_outside_page_tables tier=thorough bounded="pool of 7 tables (4 path + 3 allocatable); tree-shaped sparse pre-state (target path, one neighbour word per path table, garbage in allocatable frames); page-table indices (0,1,511,2)"
    #[kani::proof]
    #[kani::stub(PageTable::zero, zero_stub)]
    fn c02_translate_page_1gib_table_entry_lo() {
        translate_page_step!(Size1GiB, "1gib", "table_entry", P3_TABLE, IDX_LO);
        kani::cover!(true, "c02_translate_page_1gib_table_entry_lo: reachable");
    }

    //@ obligation C02 C02.translate_page_1gib.shape_table_entry.no_success_for_nonexistent_size tier=thorough bounded="pool of 7 tables (4 path + 3 allocatable); tree-shaped sparse pre-state (target path, one neighbour word per path table, garbage in allocatable frames); page-table indices (511,510,1,0)"
    //@ obligation C02 C02.translate_page_1gib.shape_table_entry.documented_outcome tier=thorough bounded="pool of 7 tables (4 path + 3 allocatable); tree-shaped sparse pre-state (target path, one neighbour word per path table, garbage in allocatable frames); page-table indices (511,510,1,0)"
    //@ obligation C09 C09.translate_page_1gib.shape_table_entry.writes_nothing tier=thorough bounded="pool of 7 tables (4 path + 3 allocatable); tree-shaped sparse pre-state (target path, one neighbour word per path table, garbage in allocatable frames); page-table indices (511,510,1,0)"
    //@ obligation C09 C09.translate_page_1gib.shape_table_entry.no_frames_requested_or_zeroed tier=thorough bounded="pool of 7 tables (4 path + 3 allocatable); tree-shaped sparse pre-state (target path, one neighbour word per path table, garbage in allocatable frames); page-table indices (511,510,1,0)"
    //@ obligation C09 C09.translate_page_1gib.shape_table_entry.no_access_outside_page_tables tier=thorough bounded="pool of 7 tables (4 path + 3 allocatable); tree-shaped sparse pre-state (target path, one neighbour word per path table, garbage in allocatable frames); page-table indices (511,510,1,0)"
    #[kani::proof]
    #[kani::stub(PageTable::zero, zero_stub)]
    fn c02_translate_page_1gib_table_entry_hi() {
        translate_page_step!(Size1GiB, "1gib", "table_entry", P3_TABLE, IDX_HI);
        kani::cover!(true, "c02_translate_page_1gib_table_entry_hi: reachable");
    }

    //@ obligation C02 C02.translate_page_1gib.shape_table_entry.no_success_for_nonexistent_size tier=thorough bounded="pool of 7 tables (4 path + 3 allocatable); tree-shaped sparse pre-state (target path, one neighbour word per path table, garbage in allocatable frames); page-table indices (255,511,0,256)"
    //@ obligation C02 C02.translate_page_1gib.shape_table_entry.documented_outcome tier=thorough bounded="pool of 7 tables (4 path + 3 allocatable); tree-shaped sparse pre-state (target path, one neighbour word per path table, garbage in allocatable frames); page-table indices (255,511,0,256)"
    //@ obligation C09 C09.translate_page_1gib.shape_table_entry.writes_nothing tier=thorough bounded="pool of 7 tables (4 path + 3 allocatable); tree-shaped sparse pre-state (target path, one neighbour word per path table, garbage in allocatable frames); page-table indices (255,511,0,256)"
    //@ obligation C09 C09.translate_page_1gib.shape_table_entry.no_frames_requested_or_zeroed tier=thorough bounded="pool of 7 tables (4 path + 3 allocatable); tree-shaped sparse pre-state (target path, one neighbour word per path table, garbage in allocatable frames); page-table indices (255,511,0,256)"
    //@ obligation C09 C09.translate_page_1gib.shape_table_entry.no_access_outside_page_tables tier=thorough bounded="pool of 7 tables (4 path + 3 allocatable); tree-shaped sparse pre-state (target path, one neighbour word per path table, garbage in allocatable frames); page-table indices (255,511,0,256)"
    #[kani::proof]
    #[kani::stub(PageTable::zero, zero_stub)]
    fn c02_translate_page_1gib_table_entry_mid() {
        translate_page_step!(Size1GiB, "1gib", "table_entry", P3_TABLE, IDX_MID);
        kani::cover!(true, "c02_translate_page_1gib_table_entry_mid: reachable");
    }

    //@ obligation C02 C02.translate_page_1gib.shape_table_entry.no_success_for_nonexistent_size bounded="pool of 7 tables (4 path + 3 allocatable); tree-shaped sparse pre-state (target path, one neighbour word per path table, garbage in allocatable frames); page-table indices (256,0,510,511)"
    //@ obligation C02 C02.translate_page_1gib.shape_table_entry.documented_outcome bounded="pool of 7 tables (4 path + 3 allocatable); tree-shaped sparse pre-state (target path, one neighbour word per path table, garbage in allocatable frames); page-table indices (256,0,510,511)"
    //@ obligation C09 C09.translate_page_1gib.shape_table_entry.writes_nothing bounded="pool of 7 tables (4 path + 3 allocatable); tree-shaped sparse pre-state (target path, one neighbour word per path table, garbage in allocatable frames); page-table indices (256,0,510,511)"
    //@ obligation C09 C09.translate_page_1gib.shape_table_entry.no_frames_requested_or_zeroed bounded="pool of 7 tables (4 path + 3 allocatable); tree-shaped sparse pre-state (target path, one neighbour word per path table, garbage in allocatable frames); page-table indices (256,0,510,511)"
    //@ obligation C09 C09.translate_page_1gib.shape_table_entry.no_access_outside_page_tables bounded="pool of 7 tables (4 path + 3 allocatable); tree-shaped sparse pre-state (target path, one neighbour word per path table, garbage in allocatable frames); page-table indices (256,0,510,511)"
    #[kani::proof]
    #[kani::stub(PageTable::zero, zero_stub)]
    fn c02_translate_page_1gib_table_entry_up() {
        translate_page_step!(Size1GiB, "1gib", "table_entry", P3_TABLE, IDX_UP);
        kani::cover!(true, "c02_translate_page_1gib_table_entry_up: reachable");
    }

    //@ obligation C01 C01.translate_page_1gib.shape_sym.agrees_with_walk bounded="pool of 7 tables (4 path + 3 allocatable); tree-shaped sparse pre-state (target path, one neighbour word per path table, garbage in allocatable frames); page-table indices (0,1,511,2)"
    //@ obligation C02 C02.translate_page_1gib.shape_sym.documented_outcome bounded="pool of 7 tables (4 path + 3 allocatable); tree-shaped sparse pre-state (target path, one neighbour word per path table, garbage in allocatable frames); page-table indices (0,1,511,2)"
    //@ obligation C09 C09.translate_page_1gib.shape_sym.writes_nothing bounded="pool of 7 tables (4 path + 3 allocatable); tree-shaped sparse pre-state (target path, one neighbour word per path table, garbage in allocatable frames); page-table indices (0,1,511,2)"
    //@ obligation C09 C09.translate_page_1gib.shape_sym.no_frames_requested_or_zeroed bounded="pool of 7 tables (4 path + 3 allocatable); tree-shaped sparse pre-state (target path, one neighbour word per path table, garbage in allocatable frames); page-table indices (0,1,511,2)"
    //@ obligation C09 C09.translate_page_1gib.shape_sym.no_access_outside_page_tables bounded="pool of 7 tables (4 path + 3 allocatable); tree-shaped sparse pre-state (target path, one neighbour word per path table, garbage in allocatable frames); page-table indices (0,1,511,2)"
    #[kani::proof]
    #[kani::stub(PageTable::zero, zero_stub)]
    fn c01_translate_page_1gib_sym_lo() {
        translate_page_step!(Size1GiB, "1gib", "sym", P3_SYM, IDX_LO);
        kani::cover!(true, "c01_translate_page_1gib_sym_lo: reachable");
    }

    //@ obligation C01 C01.translate_page_1gib.shape_sym.agrees_with_walk tier=thorough bounded="pool of 7 tables (4 path + 3 allocatable); tree-shaped sparse pre-state (target path, one neighbour word per path table, garbage in allocatable frames); page-table indices (511,510,1,0)"
    //@ obligation C02 C02.translate_page_1gib.shape_sym.documented_outcome tier=thorough bounded="pool of 7 tables (4 path + 3 allocatable); tree-shaped sparse pre-state (target path, one neighbour word per path table, garbage in allocatable frames); page-table indices (511,510,1,0)"
    //@ obligation C09 C09.translate_page_1gib.shape_sym.writes_nothing tier=thorough bounded="pool of 7 tables (4 path + 3 allocatable); tree-shaped sparse pre-state (target path, one neighbour word per path table, garbage in allocatable frames); page-table indices (511,510,1,0)"
    //@ obligation C09 C09.translate_page_1gib.shape_sym.no_frames_requested_or_zeroed tier=thorough bounded="pool of 7 tables (4 path + 3 allocatable); tree-shaped sparse pre-state (target path, one neighbour word per path table, garbage in allocatable frames); page-table indices (511,510,1,0)"
    //@ obligation C09 C09.translate_page_1gib.shape_sym.no_access_outside_page_tables tier=thorough bounded="pool of 7 tables (4 path + 3 allocatable); tree-shaped sparse pre-state (target path, one neighbour word per path table, garbage in allocatable frames); page-table indices (511,510,1,0)"
    #[kani::proof]
    #[kani::stub(PageTable::zero, zero_stub)]
    fn c01_translate_page_1gib_sym_hi() {
        translate_page_step!(Size1GiB, "1gib", "sym", P3_SYM, IDX_HI);
        kani::cover!(true, "c01_translate_page_1gib_sym_hi: reachable");
    }

    //@ obligation C01 C01.translate_page_1gib.shape_sym.agrees_with_walk tier=thorough bounded="pool of 7 tables (4 path + 3 allocatable); tree-shaped sparse pre-state (target path, one neighbour word per path table, garbage in allocatable frames); page-table indices (255,511,0,256)"
    //@ obligation C02 C02.translate_page_1gib.shape_sym.documented_outcome tier=thorough bounded="pool of 7 tables (4 path + 3 allocatable); tree-shaped sparse pre-state (target path, one neighbour word per path table, garbage in allocatable frames); page-table indices (255,511,0,256)"
    //@ obligation C09 C09.translate_page_1gib.shape_sym.writes_nothing tier=thorough bounded="pool of 7 tables (4 path + 3 allocatable); tree-shaped sparse pre-state (target path, one neighbour word per path table, garbage in allocatable frames); page-table indices (255,511,0,256)"
    //@ obligation C09 C09.translate_page_1gib.shape_sym.no_frames_requested_or_zeroed tier=thorough bounded="pool of 7 tables (4 path + 3 allocatable); tree-shaped sparse pre-state (target path, one neighbour word per path table, garbage in allocatable frames); page-table indices (255,511,0,256)"
    //@ obligation C09 C09.translate_page_1gib.shape_sym.no_access_outside_page_tables tier=thorough bounded="pool of 7 tables (4 path + 3 allocatable); tree-shaped sparse pre-state (target path, one neighbour word per path table, garbage in allocatable frames); page-table indices (255,511,0,256)"
    #[kani::proof]
    #[kani::stub(PageTable::zero, zero_stub)]
    fn c01_translate_page_1gib_sym_mid() {
        translate_page_step!(Size1GiB, "1gib", "sym", P3_SYM, IDX_MID);
        kani::cover!(true, "c01_translate_page_1gib_sym_mid: reachable");
    }

    //@ obligation C01 C01.translate_page_1gib.shape_sym.agrees_with_walk tier=thorough bounded="pool of 7 tables (4 path + 3 allocatable); tree-shaped sparse pre-state (target path, one neighbour word per path table, garbage in allocatable frames); page-table indices (256,0,510,511)"
    //@ obligation C02 C02.translate_page_1gib.shape_sym.documented_outcome tier=thorough bounded="pool of 7 tables (4 path + 3 allocatable); tree-shaped sparse pre-state (target path, one neighbour word per path table, garbage in allocatable frames); page-table indices (256,0,510,511)"
    //@ obligation C09 C09.translate_page_1gib.shape_sym.writes_nothing tier=thorough bounded="pool of 7 tables (4 path + 3 allocatable); tree-shaped sparse pre-state (target path, one neighbour word per path table, garbage in allocatable frames); page-table indices (256,0,510,511)"
    //@ obligation C09 C09.translate_page_1gib.shape_sym.no_frames_requested_or_zeroed tier=thorough bounded="pool of 7 tables (4 path + 3 allocatable); tree-shaped sparse pre-state (target path, one neighbour word per path table, garbage in allocatable frames); page-table indices (256,0,510,511)"
    //@ obligation C09 C09.translate_page_1gib.shape_sym.no_access_outside_page_tables tier=thorough bounded="pool of 7 tables (4 path + 3 allocatable); tree-shaped sparse pre-state (target path, one neighbour word per path table, garbage in allocatable frames); page-table indices (256,0,510,511)"
    #[kani::proof]
    #[kani::stub(PageTable::zero, zero_stub)]
    fn c01_translate_page_1gib_sym_up() {
        translate_page_step!(Size1GiB, "1gib", "sym", P3_SYM, IDX_UP);
        kani::cover!(true, "c01_translate_page_1gib_sym_up: reachable");
    }

    //@ obligation C01 C01.translate_any.shape_p4_absent.target_agrees_with_walk tier=thorough bounded="pool of 7 tables (4 path + 3 allocatable); tree-shaped sparse pre-state (target path, one neighbour word per path table, garbage in allocatable frames); page-table indices (0,1,511,2)"
    //@ obligation C01 C01.translate_any.shape_p4_absent.probe_agrees_with_walk tier=thorough bounded="pool of 7 tables (4 path + 3 allocatable); tree-shaped sparse pre-state (target path, one neighbour word per path table, garbage in allocatable frames); page-table indices (0,1,511,2)"
    //@ obligation C01 C01.translate_addr_any.shape_p4_absent.agrees_with_walk tier=thorough bounded="pool of 7 tables (4 path + 3 allocatable); tree-shaped sparse pre-state (target path, one neighbour word per path table, garbage in allocatable frames); page-table indices (0,1,511,2)"
    //@ obligation C09 C09.translate_any.shape_p4_absent.writes_nothing tier=thorough bounded="pool of 7 tables (4 path + 3 allocatable); tree-shaped sparse pre-state (target path, one neighbour word per path table, garbage in allocatable frames); page-table indices (0,1,511,2)"
    //@ obligation C09 C09.translate_any.shape_p4_absent.no_frames_requested_or_zeroed tier=thorough bounded="pool of 7 tables (4 path + 3 allocatable); tree-shaped sparse pre-state (target path, one neighbour word per path table, garbage in allocatable frames); page-table indices (0,1,511,2)"
    //@ obligation C09 C09.translate_any.shape_p4_absent.no_access_outside_page_tables tier=thorough bounded="pool of 7 tables (4 path + 3 allocatable); tree-shaped sparse pre-state (target path, one neighbour word per path table, garbage in allocatable frames); page-table indices (0,1,511,2)"
    #[kani::proof]
    #[kani::stub(PageTable::zero, zero_stub)]
    fn c01_translate_any_p4_absent_lo() {
        translate_step!(Size4KiB, "any", "p4_absent", P4_ABSENT, IDX_LO);
        kani::cover!(true, "c01_translate_any_p4_absent_lo: reachable");
    }

    //@ obligation C01 C01.translate_any.shape_p4_absent.target_agrees_with_walk tier=thorough bounded="pool of 7 tables (4 path + 3 allocatable); tree-shaped sparse pre-state (target path, one neighbour word per path table, garbage in allocatable frames); page-table indices (511,510,1,0)"
    //@ obligation C01 C01.translate_any.shape_p4_absent.probe_agrees_with_walk tier=thorough bounded="pool of 7 tables (4 path + 3 allocatable); tree-shaped sparse pre-state (target path, one neighbour word per path table, garbage in allocatable frames); page-table indices (511,510,1,0)"
    //@ obligation C01 C01.translate_addr_any.shape_p4_absent.agrees_with_walk tier=thorough bounded="pool of 7 tables (4 path + 3 allocatable); tree-shaped sparse pre-state (target path, one neighbour word per path table, garbage in allocatable frames); page-table indices (511,510,1,0)"
    //@ obligation C09 C09.translate_any.shape_p4_absent.writes_nothing tier=thorough bounded="pool of 7 tables (4 path + 3 allocatable); tree-shaped sparse pre-state (target path, one neighbour word per path table, garbage in allocatable frames); page-table indices (511,510,1,0)"
    //@ obligation C09 C09.translate_any.shape_p4_absent.no_frames_requested_or_zeroed tier=thorough bounded="pool of 7 tables (4 path + 3 allocatable); tree-shaped sparse pre-state (target path, one neighbour word per path table, garbage in allocatable frames); page-table indices (511,510,1,0)"
    //@ obligation C09 C09.translate_any.shape_p4_absent.no_access_outside_page_tables tier=thorough bounded="pool of 7 tables (4 path + 3 allocatable); tree-shaped sparse pre-state (target path, one neighbour word per path table, garbage in allocatable frames); page-table indices (511,510,1,0)"
    #[kani::proof]
    #[kani::stub(PageTable::zero, zero_stub)]
    fn c01_translate_any_p4_absent_hi() {
        translate_step!(Size4KiB, "any", "p4_absent", P4_ABSENT, IDX_HI);
        kani::cover!(true, "c01_translate_any_p4_absent_hi: reachable");
    }

    //@ obligation C01 C01.translate_any.shape_p4_absent.target_agrees_with_walk bounded="pool of 7 tables (4 path + 3 allocatable); tree-shaped sparse pre-state (target path, one neighbour word per path table, garbage in allocatable frames); page-table indices (255,511,0,256)"
    //@ obligation C01 C01.translate_any.shape_p4_absent.probe_agrees_with_walk bounded="pool of 7 tables (4 path + 3 allocatable); tree-shaped sparse pre-state (target path, one neighbour word per path table, garbage in allocatable frames); page-table indices (255,511,0,256)"
    //@ obligation C01 C01.translate_addr_any.shape_p4_absent.agrees_with_walk bounded="pool of 7 tables (4 path + 3 allocatable); tree-shaped sparse pre-state (target path, one neighbour word per path table, garbage in allocatable frames); page-table indices (255,511,0,256)"
    //@ obligation C09 C09.translate_any.shape_p4_absent.writes_nothing bounded="pool of 7 tables (4 path + 3 allocatable); tree-shaped sparse pre-state (target path, one neighbour word per path table, garbage in allocatable frames); page-table indices (255,511,0,256)"
    //@ obligation C09 C09.translate_any.shape_p4_absent.no_frames_requested_or_zeroed bounded="pool of 7 tables (4 path + 3 allocatable); tree-shaped sparse pre-state (target path, one neighbour word per path table, garbage in allocatable frames); page-table indices (255,511,0,256)"
    //@ obligation C09 C09.translate_any.shape_p4_absent.no_access_outside_page_tables bounded="pool of 7 tables (4 path + 3 allocatable); tree-shaped sparse pre-state (target path, one neighbour word per path table, garbage in allocatable frames); page-table indices (255,511,0,256)"
    #[kani::proof]
    #[kani::stub(PageTable::zero, zero_stub)]
    fn c01_translate_any_p4_absent_mid() {
        translate_step!(Size4KiB, "any", "p4_absent", P4_ABSENT, IDX_MID);
        kani::cover!(true, "c01_translate_any_p4_absent_mid: reachable");
    }

    //@ obligation C01 C01.translate_any.shape_p4_absent.target_agrees_with_walk tier=thorough bounded="pool of 7 tables (4 path + 3 allocatable); tree-shaped sparse pre-state (target path, one neighbour word per path table, garbage in allocatable frames); page-table indices (256,0,510,511)"
    //@ obligation C01 C01.translate_any.shape_p4_absent.probe_agrees_with_walk tier=thorough bounded="pool of 7 tables (4 path + 3 allocatable); tree-shaped sparse pre-state (target path, one neighbour word per path table, garbage in allocatable frames); page-table indices (256,0,510,511)"
    //@ obligation C01 C01.translate_addr_any.shape_p4_absent.agrees_with_walk tier=thorough bounded="pool of 7 tables (4 path + 3 allocatable); tree-shaped sparse pre-state (target path, one neighbour word per path table, garbage in allocatable frames); page-table indices (256,0,510,511)"
    //@ obligation C09 C09.translate_any.shape_p4_absent.writes_nothing tier=thorough bounded="pool of 7 tables (4 path + 3 allocatable); tree-shaped sparse pre-state (target path, one neighbour word per path table, garbage in allocatable frames); page-table indices (256,0,510,511)"
    //@ obligation C09 C09.translate_any.shape_p4_absent.no_frames_requested_or_zeroed tier=thorough bounded="pool of 7 tables (4 path + 3 allocatable); tree-shaped sparse pre-state (target path, one neighbour word per path table, garbage in allocatable frames); page-table indices (256,0,510,511)"
    //@ obligation C09 C09.translate_any.shape_p4_absent.no_access_outside_page_tables tier=thorough bounded="pool of 7 tables (4 path + 3 allocatable); tree-shaped sparse pre-state (target path, one neighbour word per path table, garbage in allocatable frames); page-table indices (256,0,510,511)"
    #[kani::proof]
    #[kani::stub(PageTable::zero, zero_stub)]
    fn c01_translate_any_p4_absent_up() {
        translate_step!(Size4KiB, "any", "p4_absent", P4_ABSENT, IDX_UP);
        kani::cover!(true, "c01_translate_any_p4_absent_up: reachable");
    }

    //@ obligation C01 C01.translate_any.shape_p3_absent.target_agrees_with_walk bounded="pool of 7 tables (4 path + 3 allocatable); tree-shaped sparse pre-state (target path, one neighbour word per path table, garbage in allocatable frames); page-table indices (0,1,511,2)"
    //@ obligation C01 C01.translate_any.shape_p3_absent.probe_agrees_with_walk bounded="pool of 7 tables (4 path + 3 allocatable); tree-shaped sparse pre-state (target path, one neighbour word per path table, garbage in allocatable frames); page-table indices (0,1,511,2)"
    //@ obligation C01 C01.translate_addr_any.shape_p3_absent.agrees_with_walk bounded="pool of 7 tables (4 path + 3 allocatable); tree-shaped sparse pre-state (target path, one neighbour word per path table, garbage in allocatable frames); page-table indices (0,1,511,2)"
    //@ obligation C09 C09.translate_any.shape_p3_absent.writes_nothing bounded="pool of 7 tables (4 path + 3 allocatable); tree-shaped sparse pre-state (target path, one neighbour word per path table, garbage in allocatable frames); page-table indices (0,1,511,2)"
    //@ obligation C09 C09.translate_any.shape_p3_absent.no_frames_requested_or_zeroed bounded="pool of 7 tables (4 path + 3 allocatable); tree-shaped sparse pre-state (target path, one neighbour word per path table, garbage in allocatable frames); page-table indices (0,1,511,2)"
    //@ obligation C09 C09.translate_any.shape_p3_absent.no_access_outside_page_tables bounded="pool of 7 tables (4 path + 3 allocatable); tree-shaped sparse pre-state (target path, one neighbour word per path table, garbage in allocatable frames); page-table indices (0,1,511,2)"
    #[kani::proof]
    #[kani::stub(PageTable::zero, zero_stub)]
    fn c01_translate_any_p3_absent_lo() {
        translate_step!(Size4KiB, "any", "p3_absent", P3_ABSENT, IDX_LO);
        kani::cover!(true, "c01_translate_any_p3_absent_lo: reachable");
    }

    //@ obligation C01 C01.translate_any.shape_p3_absent.target_agrees_with_walk tier=thorough bounded="pool of 7 tables (4 path + 3 allocatable); tree-shaped sparse pre-state (target path, one neighbour word per path table, garbage in allocatable frames); page-table indices (511,510,1,0)"
    //@ obligation C01 C01.translate_any.shape_p3_absent.probe_agrees_with_walk tier=thorough bounded="pool of 7 tables (4 path + 3 allocatable); tree-shaped sparse pre-state (target path, one neighbour word per path table, garbage in allocatable frames); page-table indices (511,510,1,0)"
    //@ obligation C01 C01.translate_addr_any.shape_p3_absent.agrees_with_walk tier=thorough bounded="pool of 7 tables (4 path + 3 allocatable); tree-shaped sparse pre-state (target path, one neighbour word per path table, garbage in allocatable frames); page-table indices (511,510,1,0)"
    //@ obligation C09 C09.translate_any.shape_p3_absent.writes_nothing tier=thorough bounded="pool of 7 tables (4 path + 3 allocatable); tree-shaped sparse pre-state (target path, one neighbour word per path table, garbage in allocatable frames); page-table indices (511,510,1,0)"
    //@ obligation C09 C09.translate_any.shape_p3_absent.no_frames_requested_or_zeroed tier=thorough bounded="pool of 7 tables (4 path + 3 allocatable); tree-shaped sparse pre-state (target path, one neighbour word per path table, garbage in allocatable frames); page-table indices (511,510,1,0)"
    //@ obligation C09 C09.translate_any.shape_p3_absent.no_access_outside_page_tables tier=thorough bounded="pool of 7 tables (4 path + 3 allocatable); tree-shaped sparse pre-state (target path, one neighbour word per path table, garbage in allocatable frames); page-table indices (511,510,1,0)"
    #[kani::proof]
    #[kani::stub(PageTable::zero, zero_stub)]
    fn c01_translate_any_p3_absent_hi() {
        translate_step!(Size4KiB, "any", "p3_absent", P3_ABSENT, IDX_HI);
        kani::cover!(true, "c01_translate_any_p3_absent_hi: reachable");
    }

    //@ obligation C01 C01.translate_any.shape_p3_absent.target_agrees_with_walk tier=thorough bounded="pool of 7 tables (4 path + 3 allocatable); tree-shaped sparse pre-state (target path, one neighbour word per path table, garbage in allocatable frames); page-table indices (255,511,0,256)"
    //@ obligation C01 C01.translate_any.shape_p3_absent.probe_agrees_with_walk tier=thorough bounded="pool of 7 tables (4 path + 3 allocatable); tree-shaped sparse pre-state (target path, one neighbour word per path table, garbage in allocatable frames); page-table indices (255,511,0,256)"
    //@ obligation C01 C01.translate_addr_any.shape_p3_absent.agrees_with_walk tier=thorough bounded="pool of 7 tables (4 path + 3 allocatable); tree-shaped sparse pre-state (target path, one neighbour word per path table, garbage in allocatable frames); page-table indices (255,511,0,256)"
    //@ obligation C09 C09.translate_any.shape_p3_absent.writes_nothing tier=thorough bounded="pool of 7 tables (4 path + 3 allocatable); tree-shaped sparse pre-state (target path, one neighbour word per path table, garbage in allocatable frames); page-table indices (255,511,0,256)"
    //@ obligation C09 C09.translate_any.shape_p3_absent.no_frames_requested_or_zeroed tier=thorough bounded="pool of 7 tables (4 path + 3 allocatable); tree-shaped sparse pre-state (target path, one neighbour word per path table, garbage in allocatable frames); page-table indices (255,511,0,256)"
    //@ obligation C09 C09.translate_any.shape_p3_absent.no_access_outside_page_tables tier=thorough bounded="pool of 7 tables (4 path + 3 allocatable); tree-shaped sparse pre-state (target path, one neighbour word per path table, garbage in allocatable frames); page-table indices (255,511,0,256)"
    #[kani::proof]
    #[kani::stub(PageTable::zero, zero_stub)]
    fn c01_translate_any_p3_absent_mid() {
        translate_step!(Size4KiB, "any", "p3_absent", P3_ABSENT, IDX_MID);
        kani::cover!(true, "c01_translate_any_p3_absent_mid: reachable");
    }

    //@ obligation C01 C01.translate_any.shape_p3_absent.target_agrees_with_walk tier=thorough bounded="pool of 7 tables (4 path + 3 allocatable); tree-shaped sparse pre-state (target path, one neighbour word per path table, garbage in allocatable frames); page-table indices (256,0,510,511)"
    //@ obligation C01 C01.translate_any.shape_p3_absent.probe_agrees_with_walk tier=thorough bounded="pool of 7 tables (4 path + 3 allocatable); tree-shaped sparse pre-state (target path, one neighbour word per path table, garbage in allocatable frames); page-table indices (256,0,510,511)"
    //@ obligation C01 C01.translate_addr_any.shape_p3_absent.agrees_with_walk tier=thorough bounded="pool of 7 tables (4 path + 3 allocatable); tree-shaped sparse pre-state (target path, one neighbour word per path table, garbage in allocatable frames); page-table indices (256,0,510,511)"
    //@ obligation C09 C09.translate_any.shape_p3_absent.writes_nothing tier=thorough bounded="pool of 7 tables (4 path + 3 allocatable); tree-shaped sparse pre-state (target path, one neighbour word per path table, garbage in allocatable frames); page-table indices (256,0,510,511)"
    //@ obligation C09 C09.translate_any.shape_p3_absent.no_frames_requested_or_zeroed tier=thorough bounded="pool of 7 tables (4 path + 3 allocatable); tree-shaped sparse pre-state (target path, one neighbour word per path table, garbage in allocatable frames); page-table indices (256,0,510,511)"
    //@ obligation C09 C09.translate_any.shape_p3_absent.no_access_outside_page_tables tier=thorough bounded="pool of 7 tables (4 path + 3 allocatable); tree-shaped sparse pre-state (target path, one neighbour word per path table, garbage in allocatable frames); page-table indices (256,0,510,511)"
    #[kani::proof]
    #[kani::stub(PageTable::zero, zero_stub)]
    fn c01_translate_any_p3_absent_up() {
        translate_step!(Size4KiB, "any", "p3_absent", P3_ABSENT, IDX_UP);
        kani::cover!(true, "c01_translate_any_p3_absent_up: reachable");
    }

    //@ obligation C01 C01.translate_any.shape_p3_huge.target_agrees_with_walk tier=thorough bounded="pool of 7 tables (4 path + 3 allocatable); tree-shaped sparse pre-state (target path, one neighbour word per path table, garbage in allocatable frames); page-table indices (0,1,511,2)"
    //@ obligation C01 C01.translate_any.shape_p3_huge.probe_agrees_with_walk tier=thorough bounded="pool of 7 tables (4 path + 3 allocatable); tree-shaped sparse pre-state (target path, one neighbour word per path table, garbage in allocatable frames); page-table indices (0,1,511,2)"
    //@ obligation C01 C01.translate_addr_any.shape_p3_huge.agrees_with_walk tier=thorough bounded="pool of 7 tables (4 path + 3 allocatable); tree-shaped sparse pre-state (target path, one neighbour word per path table, garbage in allocatable frames); page-table indices (0,1,511,2)"
    //@ obligation C09 C09.translate_any.shape_p3_huge.writes_nothing tier=thorough bounded="pool of 7 tables (4 path + 3 allocatable); tree-shaped sparse pre-state (target path, one neighbour word per path table, garbage in allocatable frames); page-table indices (0,1,511,2)"
    //@ obligation C09 C09.translate_any.shape_p3_huge.no_frames_requested_or_zeroed tier=thorough bounded="pool of 7 tables (4 path + 3 allocatable); tree-shaped sparse pre-state (target path, one neighbour word per path table, garbage in allocatable frames); page-table indices (0,1,511,2)"
    //@ obligation C09 C09.translate_any.shape_p3_huge.no_access_outside_page_tables tier=thorough bounded="pool of 7 tables (4 path + 3 allocatable); tree-shaped sparse pre-state (target path, one neighbour word per path table, garbage in allocatable frames); page-table indices (0,1,511,2)"
    #[kani::proof]
    #[kani::stub(PageTable::zero, zero_stub)]
    fn c01_translate_any_p3_huge_lo() {
        translate_step!(Size4KiB, "any", "p3_huge", P3_HUGE, IDX_LO);
        kani::cover!(true, "c01_translate_any_p3_huge_lo: reachable");
    }

    //@ obligation C01 C01.translate_any.shape_p3_huge.target_agrees_with_walk tier=thorough bounded="pool of 7 tables (4 path + 3 allocatable); tree-shaped sparse pre-state (target path, one neighbour word per path table, garbage in allocatable frames); page-table indices (511,510,1,0)"
    //@ obligation C01 C01.translate_any.shape_p3_huge.probe_agrees_with_walk tier=thorough bounded="pool of 7 tables (4 path + 3 allocatable); tree-shaped sparse pre-state (target path, one neighbour word per path table, garbage in allocatable frames); page-table indices (511,510,1,0)"
    //@ obligation C01 C01.translate_addr_any.shape_p3_huge.agrees_with_walk tier=thorough bounded="pool of 7 tables (4 path + 3 allocatable); tree-shaped sparse pre-state (target path, one neighbour word per path table, garbage in allocatable frames); page-table indices (511,510,1,0)"
    //@ obligation C09 C09.translate_any.shape_p3_huge.writes_nothing tier=thorough bounded="pool of 7 tables (4 path + 3 allocatable); tree-shaped sparse pre-state (target path, one neighbour word per path table, garbage in allocatable frames); page-table indices (511,510,1,0)"
    //@ obligation C09 C09.translate_any.shape_p3_huge.no_frames_requested_or_zeroed tier=thorough bounded="pool of 7 tables (4 path + 3 allocatable); tree-shaped sparse pre-state (target path, one neighbour word per path table, garbage in allocatable frames); page-table indices (511,510,1,0)"
    //@ obligation C09 C09.translate_any.shape_p3_huge.no_access_outside_page_tables tier=thorough bounded="pool of 7 tables (4 path + 3 allocatable); tree-shaped sparse pre-state (target path, one neighbour word per path table, garbage in allocatable frames); page-table indices (511,510,1,0)"
    #[kani::proof]
    #[kani::stub(PageTable::zero, zero_stub)]
    fn c01_translate_any_p3_huge_hi() {
        translate_step!(Size4KiB, "any", "p3_huge", P3_HUGE, IDX_HI);
        kani::cover!(true, "c01_translate_any_p3_huge_hi: reachable");
    }

    //@ obligation C01 C01.translate_any.shape_p3_huge.target_agrees_with_walk bounded="pool of 7 tables (4 path + 3 allocatable); tree-shaped sparse pre-state (target path, one neighbour word per path table, garbage in allocatable frames); page-table indices (255,511,0,256)"
    //@ obligation C01 C01.translate_any.shape_p3_huge.probe_agrees_with_walk bounded="pool of 7 tables (4 path + 3 allocatable); tree-shaped sparse pre-state (target path, one neighbour word per path table, garbage in allocatable frames); page-table indices (255,511,0,256)"
    //@ obligation C01 C01.translate_addr_any.shape_p3_huge.agrees_with_walk bounded="pool of 7 tables (4 path + 3 allocatable); tree-shaped sparse pre-state (target path, one neighbour word per path table, garbage in allocatable frames); page-table indices (255,511,0,256)"
    //@ obligation C09 C09.translate_any.shape_p3_huge.writes_nothing bounded="pool of 7 tables (4 path + 3 allocatable); tree-shaped sparse pre-state (target path, one neighbour word per path table, garbage in allocatable frames); page-table indices (255,511,0,256)"
    //@ obligation C09 C09.translate_any.shape_p3_huge.no_frames_requested_or_zeroed bounded="pool of 7 tables (4 path + 3 allocatable); tree-shaped sparse pre-state (target path, one neighbour word per path table, garbage in allocatable frames); page-table indices (255,511,0,256)"
    //@ obligation C09 C09.translate_any.shape_p3_huge.no_access_outside_page_tables bounded="pool of 7 tables (4 path + 3 allocatable); tree-shaped sparse pre-state (target path, one neighbour word per path table, garbage in allocatable frames); page-table indices (255,511,0,256)"
    #[kani::proof]
    #[kani::stub(PageTable::zero, zero_stub)]
    fn c01_translate_any_p3_huge_mid() {
        translate_step!(Size4KiB, "any", "p3_huge", P3_HUGE, IDX_MID);
        kani::cover!(true, "c01_translate_any_p3_huge_mid: reachable");
    }

    //@ obligation C01 C01.translate_any.shape_p3_huge.target_agrees_with_walk tier=thorough bounded="pool of 7 tables (4 path + 3 allocatable); tree-shaped sparse pre-state (target path, one neighbour word per path table, garbage in allocatable frames); page-table indices (256,0,510,511)"
    //@ obligation C01 C01.translate_any.shape_p3_huge.probe_agrees_with_walk tier=thorough bounded="pool of 7 tables (4 path + 3 allocatable); tree-shaped sparse pre-state (target path, one neighbour word per path table, garbage in allocatable frames); page-table indices (256,0,510,511)"
    //@ obligation C01 C01.translate_addr_any.shape_p3_huge.agrees_with_walk tier=thorough bounded="pool of 7 tables (4 path + 3 allocatable); tree-shaped sparse pre-state (target path, one neighbour word per path table, garbage in allocatable frames); page-table indices (256,0,510,511)"
    //@ obligation C09 C09.translate_any.shape_p3_huge.writes_nothing tier=thorough bounded="pool of 7 tables (4 path + 3 allocatable); tree-shaped sparse pre-state (target path, one neighbour word per path table, garbage in allocatable frames); page-table indices (256,0,510,511)"
    //@ obligation C09 C09.translate_any.shape_p3_huge.no_frames_requested_or_zeroed tier=thorough bounded="pool of 7 tables (4 path + 3 allocatable); tree-shaped sparse pre-state (target path, one neighbour word per path table, garbage in allocatable frames); page-table indices (256,0,510,511)"
    //@ obligation C09 C09.translate_any.shape_p3_huge.no_access_outside_page_tables tier=thorough bounded="pool of 7 tables (4 path + 3 allocatable); tree-shaped sparse pre-state (target path, one neighbour word per path table, garbage in allocatable frames); page-table indices (256,0,510,511)"
    #[kani::proof]
    #[kani::stub(PageTable::zero, zero_stub)]
    fn c01_translate_any_p3_huge_up() {
        translate_step!(Size4KiB, "any", "p3_huge", P3_HUGE, IDX_UP);
        kani::cover!(true, "c01_translate_any_p3_huge_up: reachable");
    }

    //@ obligation C01 C01.translate_any.shape_p2_absent.target_agrees_with_walk bounded="pool of 7 tables (4 path + 3 allocatable); tree-shaped sparse pre-state (target path, one neighbour word per path table, garbage in allocatable frames); page-table indices (0,1,511,2)"
    //@ obligation C01 C01.translate_any.shape_p2_absent.probe_agrees_with_walk bounded="pool of 7 tables (4 path + 3 allocatable); tree-shaped sparse pre-state (target path, one neighbour word per path table, garbage in allocatable frames); page-table indices (0,1,511,2)"
    //@ obligation C01 C01.translate_addr_any.shape_p2_absent.agrees_with_walk bounded="pool of 7 tables (4 path + 3 allocatable); tree-shaped sparse pre-state (target path, one neighbour word per path table, garbage in allocatable frames); page-table indices (0,1,511,2)"
    //@ obligation C09 C09.translate_any.shape_p2_absent.writes_nothing bounded="pool of 7 tables (4 path + 3 allocatable); tree-shaped sparse pre-state (target path, one neighbour word per path table, garbage in allocatable frames); page-table indices (0,1,511,2)"
    //@ obligation C09 C09.translate_any.shape_p2_absent.no_frames_requested_or_zeroed bounded="pool of 7 tables (4 path + 3 allocatable); tree-shaped sparse pre-state (target path, one neighbour word per path table, garbage in allocatable frames); page-table indices (0,1,511,2)"
    //@ obligation C09 C09.translate_any.shape_p2_absent.no_access_outside_page_tables bounded="pool of 7 tables (4 path + 3 allocatable); tree-shaped sparse pre-state (target path, one neighbour word per path table, garbage in allocatable frames); page-table indices (0,1,511,2)"
    #[kani::proof]
    #[kani::stub(PageTable::zero, zero_stub)]
    fn c01_translate_any_p2_absent_lo() {
        translate_step!(Size4KiB, "any", "p2_absent", P2_ABSENT, IDX_LO);
        kani::cover!(true, "c01_translate_any_p2_absent_lo: reachable");
    }

    //@ obligation C01 C01.translate_any.shape_p2_absent.target_agrees_with_walk tier=thorough bounded="pool of 7 tables (4 path + 3 allocatable); tree-shaped sparse pre-state (target path, one neighbour word per path table, garbage in allocatable frames); page-table indices (511,510,1,0)"
    //@ obligation C01 C01.translate_any.shape_p2_absent.probe_agrees_with_walk tier=thorough bounded="pool of 7 tables (4 path + 3 allocatable); tree-shaped sparse pre-state (target path, one neighbour word per path table, garbage in allocatable frames); page-table indices (511,510,1,0)"
    //@ obligation C01 C01.translate_addr_any.shape_p2_absent.agrees_with_walk tier=thorough bounded="pool of 7 tables (4 path + 3 allocatable); tree-shaped sparse pre-state (target path, one neighbour word per path table, garbage in allocatable frames); page-table indices (511,510,1,0)"
    //@ obligation C09 C09.translate_any.shape_p2_absent.writes_nothing tier=thorough bounded="pool of 7 tables (4 path + 3 allocatable); tree-shaped sparse pre-state (target path, one neighbour word per path table, garbage in allocatable frames); page-table indices (511,510,1,0)"
    //@ obligation C09 C09.translate_any.shape_p2_absent.no_frames_requested_or_zeroed tier=thorough bounded="pool of 7 tables (4 path + 3 allocatable); tree-shaped sparse pre-state (target path, one neighbour word per path table, garbage in allocatable frames); page-table indices (511,510,1,0)"
    //@ obligation C09 C09.translate_any.shape_p2_absent.no_access_outside_page_tables tier=thorough bounded="pool of 7 tables (4 path + 3 allocatable); tree-shaped sparse pre-state (target path, one neighbour word per path table, garbage in allocatable frames); page-table indices (511,510,1,0)"
    #[kani::proof]
    #[kani::stub(PageTable::zero, zero_stub)]
    fn c01_translate_any_p2_absent_hi() {
        translate_step!(Size4KiB, "any", "p2_absent", P2_ABSENT, IDX_HI);
        kani::cover!(true, "c01_translate_any_p2_absent_hi: reachable");
    }

    //@ obligation C01 C01.translate_any.shape_p2_absent.target_agrees_with_walk tier=thorough bounded="pool of 7 tables (4 path + 3 allocatable); tree-shaped sparse pre-state (target path, one neighbour word per path table, garbage in allocatable frames); page-table indices (255,511,0,256)"
    //@ obligation C01 C01.translate_any.shape_p2_absent.probe_agrees_with_walk tier=thorough bounded="pool of 7 tables (4 path + 3 allocatable); tree-shaped sparse pre-state (target path, one neighbour word per path table, garbage in allocatable frames); page-table indices (255,511,0,256)"
    //@ obligation C01 C01.translate_addr_any.shape_p2_absent.agrees_with_walk tier=thorough bounded="pool of 7 tables (4 path + 3 allocatable); tree-shaped sparse pre-state (target path, one neighbour word per path table, garbage in allocatable frames); page-table indices (255,511,0,256)"
    //@ obligation C09 C09.translate_any.shape_p2_absent.writes_nothing tier=thorough bounded="pool of 7 tables (4 path + 3 allocatable); tree-shaped sparse pre-state (target path, one neighbour word per path table, garbage in allocatable frames); page-table indices (255,511,0,256)"
    //@ obligation C09 C09.translate_any.shape_p2_absent.no_frames_requested_or_zeroed tier=thorough bounded="pool of 7 tables (4 path + 3 allocatable); tree-shaped sparse pre-state (target path, one neighbour word per path table, garbage in allocatable frames); page-table indices (255,511,0,256)"
    //@ obligation C09 C09.translate_any.shape_p2_absent.no_access_outside_page_tables tier=thorough bounded="pool of 7 tables (4 path + 3 allocatable); tree-shaped sparse pre-state (target path, one neighbour word per path table, garbage in allocatable frames); page-table indices (255,511,0,256)"
    #[kani::proof]
    #[kani::stub(PageTable::zero, zero_stub)]
    fn c01_translate_any_p2_absent_mid() {
        translate_step!(Size4KiB, "any", "p2_absent", P2_ABSENT, IDX_MID);
        kani::cover!(true, "c01_translate_any_p2_absent_mid: reachable");
    }

    //@ obligation C01 C01.translate_any.shape_p2_absent.target_agrees_with_walk tier=thorough bounded="pool of 7 tables (4 path + 3 allocatable); tree-shaped sparse pre-state (target path, one neighbour word per path table, garbage in allocatable frames); page-table indices (256,0,510,511)"
    //@ obligation C01 C01.translate_any.shape_p2_absent.probe_agrees_with_walk tier=thorough bounded="pool of 7 tables (4 path + 3 allocatable); tree-shaped sparse pre-state (target path, one neighbour word per path table, garbage in allocatable frames); page-table indices (256,0,510,511)"
    //@ obligation C01 C01.translate_addr_any.shape_p2_absent.agrees_with_walk tier=thorough bounded="pool of 7 tables (4 path + 3 allocatable); tree-shaped sparse pre-state (target path, one neighbour word per path table, garbage in allocatable frames); page-table indices (256,0,510,511)"
    //@ obligation C09 C09.translate_any.shape_p2_absent.writes_nothing tier=thorough bounded="pool of 7 tables (4 path + 3 allocatable); tree-shaped sparse pre-state (target path, one neighbour word per path table, garbage in allocatable frames); page-table indices (256,0,510,511)"
    //@ obligation C09 C09.translate_any.shape_p2_absent.no_frames_requested_or_zeroed tier=thorough bounded="pool of 7 tables (4 path + 3 allocatable); tree-shaped sparse pre-state (target path, one neighbour word per path table, garbage in allocatable frames); page-table indices (256,0,510,511)"
    //@ obligation C09 C09.translate_any.shape_p2_absent.no_access_outside_page_tables tier=thorough bounded="pool of 7 tables (4 path + 3 allocatable); tree-shaped sparse pre-state (target path, one neighbour word per path table, garbage in allocatable frames); page-table indices (256,0,510,511)"
    #[kani::proof]
    #[kani::stub(PageTable::zero, zero_stub)]
    fn c01_translate_any_p2_absent_up() {
        translate_step!(Size4KiB, "any", "p2_absent", P2_ABSENT, IDX_UP);
        kani::cover!(true, "c01_translate_any_p2_absent_up: reachable");
    }

    //@ obligation C01 C01.translate_any.shape_p2_huge.target_agrees_with_walk tier=thorough bounded="pool of 7 tables (4 path + 3 allocatable); tree-shaped sparse pre-state (target path, one neighbour word per path table, garbage in allocatable frames); page-table indices (0,1,511,2)"
    //@ obligation C01 C01.translate_any.shape_p2_huge.probe_agrees_with_walk tier=thorough bounded="pool of 7 tables (4 path + 3 allocatable); tree-shaped sparse pre-state (target path, one neighbour word per path table, garbage in allocatable frames); page-table indices (0,1,511,2)"
    //@ obligation C01 C01.translate_addr_any.shape_p2_huge.agrees_with_walk tier=thorough bounded="pool of 7 tables (4 path + 3 allocatable); tree-shaped sparse pre-state (target path, one neighbour word per path table, garbage in allocatable frames); page-table indices (0,1,511,2)"
    //@ obligation C09 C09.translate_any.shape_p2_huge.writes_nothing tier=thorough bounded="pool of 7 tables (4 path + 3 allocatable); tree-shaped sparse pre-state (target path, one neighbour word per path table, garbage in allocatable frames); page-table indices (0,1,511,2)"
    //@ obligation C09 C09.translate_any.shape_p2_huge.no_frames_requested_or_zeroed tier=thorough bounded="pool of 7 tables (4 path + 3 allocatable); tree-shaped sparse pre-state (target path, one neighbour word per path table, garbage in allocatable frames); page-table indices (0,1,511,2)"
    //@ obligation C09 C09.translate_any.shape_p2_huge.no_access_outside_page_tables tier=thorough bounded="pool of 7 tables (4 path + 3 allocatable); tree-shaped sparse pre-state (target path, one neighbour word per path table, garbage in allocatable frames); page-table indices (0,1,511,2)"
    #[kani::proof]
    #[kani::stub(PageTable::zero, zero_stub)]
    fn c01_translate_any_p2_huge_lo() {
        translate_step!(Size4KiB, "any", "p2_huge", P2_HUGE, IDX_LO);
        kani::cover!(true, "c01_translate_any_p2_huge_lo: reachable");
    }

    //@ obligation C01 C01.translate_any.shape_p2_huge.target_agrees_with_walk tier=thorough bounded="pool of 7 tables (4 path + 3 allocatable); tree-shaped sparse pre-state (target path, one neighbour word per path table, garbage in allocatable frames); page-table indices (511,510,1,0)"
    //@ obligation C01 C01.translate_any.shape_p2_huge.probe_agrees_with_walk tier=thorough bounded="pool of 7 tables (4 path + 3 allocatable); tree-shaped sparse pre-state (target path, one neighbour word per path table, garbage in allocatable frames); page-table indices (511,510,1,0)"
    //@ obligation C01 C01.translate_addr_any.shape_p2_huge.agrees_with_walk tier=thorough bounded="pool of 7 tables (4 path + 3 allocatable); tree-shaped sparse pre-state (target path, one neighbour word per path table, garbage in allocatable frames); page-table indices (511,510,1,0)"
    //@ obligation C09 C09.translate_any.shape_p2_huge.writes_nothing tier=thorough bounded="pool of 7 tables (4 path + 3 allocatable); tree-shaped sparse pre-state (target path, one neighbour word per path table, garbage in allocatable frames); page-table indices (511,510,1,0)"
    //@ obligation C09 C09.translate_any.shape_p2_huge.no_frames_requested_or_zeroed tier=thorough bounded="pool of 7 tables (4 path + 3 allocatable); tree-shaped sparse pre-state (target path, one neighbour word per path table, garbage in allocatable frames); page-table indices (511,510,1,0)"
    //@ obligation C09 C09.translate_any.shape_p2_huge.no_access_outside_page_tables tier=thorough bounded="pool of 7 tables (4 path + 3 allocatable); tree-shaped sparse pre-state (target path, one neighbour word per path table, garbage in allocatable frames); page-table indices (511,510,1,0)"
    #[kani::proof]
    #[kani::stub(PageTable::zero, zero_stub)]
    fn c01_translate_any_p2_huge_hi() {
        translate_step!(Size4KiB, "any", "p2_huge", P2_HUGE, IDX_HI);
        kani::cover!(true, "c01_translate_any_p2_huge_hi: reachable");
    }

    //@ obligation C01 C01.translate_any.shape_p2_huge.target_agrees_with_walk tier=thorough bounded="pool of 7 tables (4 path + 3 allocatable); tree-shaped sparse pre-state (target path, one neighbour word per path table, garbage in allocatable frames); page-table indices (255,511,0,256)"
    //@ obligation C01 C01.translate_any.shape_p2_huge.probe_agrees_with_walk tier=thorough bounded="pool of 7 tables (4 path + 3 allocatable); tree-shaped sparse pre-state (target path, one neighbour word per path table, garbage in allocatable frames); page-table indices (255,511,0,256)"
    //@ obligation C01 C01.translate_addr_any.shape_p2_huge.agrees_with_walk tier=thorough bounded="pool of 7 tables (4 path + 3 allocatable); tree-shaped sparse pre-state (target path, one neighbour word per path table, garbage in allocatable frames); page-table indices (255,511,0,256)"
    //@ obligation C09 C09.translate_any.shape_p2_huge.writes_nothing tier=thorough bounded="pool of 7 tables (4 path + 3 allocatable); tree-shaped sparse pre-state (target path, one neighbour word per path table, garbage in allocatable frames); page-table indices (255,511,0,256)"
    //@ obligation C09 C09.translate_any.shape_p2_huge.no_frames_requested_or_zeroed tier=thorough bounded="pool of 7 tables (4 path + 3 allocatable); tree-shaped sparse pre-state (target path, one neighbour word per path table, garbage in allocatable frames); page-table indices (255,511,0,256)"
    //@ obligation C09 C09.translate_any.shape_p2_huge.no_access_outside_page_tables tier=thorough bounded="pool of 7 tables (4 path + 3 allocatable); tree-shaped sparse pre-state (target path, one neighbour word per path table, garbage in allocatable frames); page-table indices (255,511,0,256)"
    #[kani::proof]
    #[kani::stub(PageTable::zero, zero_stub)]
    fn c01_translate_any_p2_huge_mid() {
        translate_step!(Size4KiB, "any", "p2_huge", P2_HUGE, IDX_MID);
        kani::cover!(true, "c01_translate_any_p2_huge_mid: reachable");
    }

    //@ obligation C01 C01.translate_any.shape_p2_huge.target_agrees_with_walk bounded="pool of 7 tables (4 path + 3 allocatable); tree-shaped sparse pre-state (target path, one neighbour word per path table, garbage in allocatable frames); page-table indices (256,0,510,511)"
    //@ obligation C01 C01.translate_any.shape_p2_huge.probe_agrees_with_walk bounded="pool of 7 tables (4 path + 3 allocatable); tree-shaped sparse pre-state (target path, one neighbour word per path table, garbage in allocatable frames); page-table indices (256,0,510,511)"
    //@ obligation C01 C01.translate_addr_any.shape_p2_huge.agrees_with_walk bounded="pool of 7 tables (4 path + 3 allocatable); tree-shaped sparse pre-state (target path, one neighbour word per path table, garbage in allocatable frames); page-table indices (256,0,510,511)"
    //@ obligation C09 C09.translate_any.shape_p2_huge.writes_nothing bounded="pool of 7 tables (4 path + 3 allocatable); tree-shaped sparse pre-state (target path, one neighbour word per path table, garbage in allocatable frames); page-table indices (256,0,510,511)"
    //@ obligation C09 C09.translate_any.shape_p2_huge.no_frames_requested_or_zeroed bounded="pool of 7 tables (4 path + 3 allocatable); tree-shaped sparse pre-state (target path, one neighbour word per path table, garbage in allocatable frames); page-table indices (256,0,510,511)"
    //@ obligation C09 C09.translate_any.shape_p2_huge.no_access_outside_page_tables bounded="pool of 7 tables (4 path + 3 allocatable); tree-shaped sparse pre-state (target path, one neighbour word per path table, garbage in allocatable frames); page-table indices (256,0,510,511)"
    #[kani::proof]
    #[kani::stub(PageTable::zero, zero_stub)]
    fn c01_translate_any_p2_huge_up() {
        translate_step!(Size4KiB, "any", "p2_huge", P2_HUGE, IDX_UP);
        kani::cover!(true, "c01_translate_any_p2_huge_up: reachable");
    }

    //@ obligation C01 C01.translate_any.shape_p1_absent.target_agrees_with_walk tier=thorough bounded="pool of 7 tables (4 path + 3 allocatable); tree-shaped sparse pre-state (target path, one neighbour word per path table, garbage in allocatable frames); page-table indices (0,1,511,2)"
    //@ obligation C01 C01.translate_any.shape_p1_absent.probe_agrees_with_walk tier=thorough bounded="pool of 7 tables (4 path + 3 allocatable); tree-shaped sparse pre-state (target path, one neighbour word per path table, garbage in allocatable frames); page-table indices (0,1,511,2)"
    //@ obligation C01 C01.translate_addr_any.shape_p1_absent.agrees_with_walk tier=thorough bounded="pool of 7 tables (4 path + 3 allocatable); tree-shaped sparse pre-state (target path, one neighbour word per path table, garbage in allocatable frames); page-table indices (0,1,511,2)"
    //@ obligation C09 C09.translate_any.shape_p1_absent.writes_nothing tier=thorough bounded="pool of 7 tables (4 path + 3 allocatable); tree-shaped sparse pre-state (target path, one neighbour word per path table, garbage in allocatable frames); page-table indices (0,1,511,2)"
    //@ obligation C09 C09.translate_any.shape_p1_absent.no_frames_requested_or_zeroed tier=thorough bounded="pool of 7 tables (4 path + 3 allocatable); tree-shaped sparse pre-state (target path, one neighbour word per path table, garbage in allocatable frames); page-table indices (0,1,511,2)"
    //@ obligation C09 C09.translate_any.shape_p1_absent.no_access_outside_page_tables tier=thorough bounded="pool of 7 tables (4 path + 3 allocatable); tree-shaped sparse pre-state (target path, one neighbour word per path table, garbage in allocatable frames); page-table indices (0,1,511,2)"
    #[kani::proof]
    #[kani::stub(PageTable::zero, zero_stub)]
    fn c01_translate_any_p1_absent_lo() {
        translate_step!(Size4KiB, "any", "p1_absent", P1_ABSENT, IDX_LO);
        kani::cover!(true, "c01_translate_any_p1_absent_lo: reachable");
    }

    //@ obligation C01 C01.translate_any.shape_p1_absent.target_agrees_with_walk bounded="pool of 7 tables (4 path + 3 allocatable); tree-shaped sparse pre-state (target path, one neighbour word per path table, garbage in allocatable frames); page-table indices (511,510,1,0)"
    //@ obligation C01 C01.translate_any.shape_p1_absent.probe_agrees_with_walk bounded="pool of 7 tables (4 path + 3 allocatable); tree-shaped sparse pre-state (target path, one neighbour word per path table, garbage in allocatable frames); page-table indices (511,510,1,0)"
    //@ obligation C01 C01.translate_addr_any.shape_p1_absent.agrees_with_walk bounded="pool of 7 tables (4 path + 3 allocatable); tree-shaped sparse pre-state (target path, one neighbour word per path table, garbage in allocatable frames); page-table indices (511,510,1,0)"
    //@ obligation C09 C09.translate_any.shape_p1_absent.writes_nothing bounded="pool of 7 tables (4 path + 3 allocatable); tree-shaped sparse pre-state (target path, one neighbour word per path table, garbage in allocatable frames); page-table indices (511,510,1,0)"
    //@ obligation C09 C09.translate_any.shape_p1_absent.no_frames_requested_or_zeroed bounded="pool of 7 tables (4 path + 3 allocatable); tree-shaped sparse pre-state (target path, one neighbour word per path table, garbage in allocatable frames); page-table indices (511,510,1,0)"
    //@ obligation C09 C09.translate_any.shape_p1_absent.no_access_outside_page_tables bounded="pool of 7 tables (4 path + 3 allocatable); tree-shaped sparse pre-state (target path, one neighbour word per path table, garbage in allocatable frames); page-table indices (511,510,1,0)"
    #[kani::proof]
    #[kani::stub(PageTable::zero, zero_stub)]
    fn c01_translate_any_p1_absent_hi() {
        translate_step!(Size4KiB, "any", "p1_absent", P1_ABSENT, IDX_HI);
        kani::cover!(true, "c01_translate_any_p1_absent_hi: reachable");
    }

    //@ obligation C01 C01.translate_any.shape_p1_absent.target_agrees_with_walk tier=thorough bounded="pool of 7 tables (4 path + 3 allocatable); tree-shaped sparse pre-state (target path, one neighbour word per path table, garbage in allocatable frames); page-table indices (255,511,0,256)"
    //@ obligation C01 C01.translate_any.shape_p1_absent.probe_agrees_with_walk tier=thorough bounded="pool of 7 tables (4 path + 3 allocatable); tree-shaped sparse pre-state (target path, one neighbour word per path table, garbage in allocatable frames); page-table indices (255,511,0,256)"
    //@ obligation C01 C01.translate_addr_any.shape_p1_absent.agrees_with_walk tier=thorough bounded="pool of 7 tables (4 path + 3 allocatable); tree-shaped sparse pre-state (target path, one neighbour word per path table, garbage in allocatable frames); page-table indices (255,511,0,256)"
    //@ obligation C09 C09.translate_any.shape_p1_absent.writes_nothing tier=thorough bounded="pool of 7 tables (4 path + 3 allocatable); tree-shaped sparse pre-state (target path, one neighbour word per path table, garbage in allocatable frames); page-table indices (255,511,0,256)"
    //@ obligation C09 C09.translate_any.shape_p1_absent.no_frames_requested_or_zeroed tier=thorough bounded="pool of 7 tables (4 path + 3 allocatable); tree-shaped sparse pre-state (target path, one neighbour word per path table, garbage in allocatable frames); page-table indices (255,511,0,256)"
    //@ obligation C09 C09.translate_any.shape_p1_absent.no_access_outside_page_tables tier=thorough bounded="pool of 7 tables (4 path + 3 allocatable); tree-shaped sparse pre-state (target path, one neighbour word per path table, garbage in allocatable frames); page-table indices (255,511,0,256)"
    #[kani::proof]
    #[kani::stub(PageTable::zero, zero_stub)]
    fn c01_translate_any_p1_absent_mid() {
        translate_step!(Size4KiB, "any", "p1_absent", P1_ABSENT, IDX_MID);
        kani::cover!(true, "c01_translate_any_p1_absent_mid: reachable");
    }

    //@ obligation C01 C01.translate_any.shape_p1_absent.target_agrees_with_walk tier=thorough bounded="pool of 7 tables (4 path + 3 allocatable); tree-shaped sparse pre-state (target path, one neighbour word per path table, garbage in allocatable frames); page-table indices (256,0,510,511)"
    //@ obligation C01 C01.translate_any.shape_p1_absent.probe_agrees_with_walk tier=thorough bounded="pool of 7 tables (4 path + 3 allocatable); tree-shaped sparse pre-state (target path, one neighbour word per path table, garbage in allocatable frames); page-table indices (256,0,510,511)"
    //@ obligation C01 C01.translate_addr_any.shape_p1_absent.agrees_with_walk tier=thorough bounded="pool of 7 tables (4 path + 3 allocatable); tree-shaped sparse pre-state (target path, one neighbour word per path table, garbage in allocatable frames); page-table indices (256,0,510,511)"
    //@ obligation C09 C09.translate_any.shape_p1_absent.writes_nothing tier=thorough bounded="pool of 7 tables (4 path + 3 allocatable); tree-shaped sparse pre-state (target path, one neighbour word per path table, garbage in allocatable frames); page-table indices (256,0,510,511)"
    //@ obligation C09 C09.translate_any.shape_p1_absent.no_frames_requested_or_zeroed tier=thorough bounded="pool of 7 tables (4 path + 3 allocatable); tree-shaped sparse pre-state (target path, one neighbour word per path table, garbage in allocatable frames); page-table indices (256,0,510,511)"
    //@ obligation C09 C09.translate_any.shape_p1_absent.no_access_outside_page_tables tier=thorough bounded="pool of 7 tables (4 path + 3 allocatable); tree-shaped sparse pre-state (target path, one neighbour word per path table, garbage in allocatable frames); page-table indices (256,0,510,511)"
    #[kani::proof]
    #[kani::stub(PageTable::zero, zero_stub)]
    fn c01_translate_any_p1_absent_up() {
        translate_step!(Size4KiB, "any", "p1_absent", P1_ABSENT, IDX_UP);
        kani::cover!(true, "c01_translate_any_p1_absent_up: reachable");
    }

    //@ obligation C01 C01.translate_any.shape_p1_leaf.target_agrees_with_walk tier=thorough bounded="pool of 7 tables (4 path + 3 allocatable); tree-shaped sparse pre-state (target path, one neighbour word per path table, garbage in allocatable frames); page-table indices (0,1,511,2)"
    //@ obligation C01 C01.translate_any.shape_p1_leaf.probe_agrees_with_walk tier=thorough bounded="pool of 7 tables (4 path + 3 allocatable); tree-shaped sparse pre-state (target path, one neighbour word per path table, garbage in allocatable frames); page-table indices (0,1,511,2)"
    //@ obligation C01 C01.translate_addr_any.shape_p1_leaf.agrees_with_walk tier=thorough bounded="pool of 7 tables (4 path + 3 allocatable); tree-shaped sparse pre-state (target path, one neighbour word per path table, garbage in allocatable frames); page-table indices (0,1,511,2)"
    //@ obligation C09 C09.translate_any.shape_p1_leaf.writes_nothing tier=thorough bounded="pool of 7 tables (4 path + 3 allocatable); tree-shaped sparse pre-state (target path, one neighbour word per path table, garbage in allocatable frames); page-table indices (0,1,511,2)"
    //@ obligation C09 C09.translate_any.shape_p1_leaf.no_frames_requested_or_zeroed tier=thorough bounded="pool of 7 tables (4 path + 3 allocatable); tree-shaped sparse pre-state (target path, one neighbour word per path table, garbage in allocatable frames); page-table indices (0,1,511,2)"
    //@ obligation C09 C09.translate_any.shape_p1_leaf.no_access_outside_page_tables tier=thorough bounded="pool of 7 tables (4 path + 3 allocatable); tree-shaped sparse pre-state (target path, one neighbour word per path table, garbage in allocatable frames); page-table indices (0,1,511,2)"
    #[kani::proof]
    #[kani::stub(PageTable::zero, zero_stub)]
    fn c01_translate_any_p1_leaf_lo() {
        translate_step!(Size4KiB, "any", "p1_leaf", P1_LEAF, IDX_LO);
        kani::cover!(true, "c01_translate_any_p1_leaf_lo: reachable");
    }

    //@ obligation C01 C01.translate_any.shape_p1_leaf.target_agrees_with_walk tier=thorough bounded="pool of 7 tables (4 path + 3 allocatable); tree-shaped sparse pre-state (target path, one neighbour word per path table, garbage in allocatable frames); page-table indices (511,510,1,0)"
    //@ obligation C01 C01.translate_any.shape_p1_leaf.probe_agrees_with_walk tier=thorough bounded="pool of 7 tables (4 path + 3 allocatable); tree-shaped sparse pre-state (target path, one neighbour word per path table, garbage in allocatable frames); page-table indices (511,510,1,0)"
    //@ obligation C01 C01.translate_addr_any.shape_p1_leaf.agrees_with_walk tier=thorough bounded="pool of 7 tables (4 path + 3 allocatable); tree-shaped sparse pre-state (target path, one neighbour word per path table, garbage in allocatable frames); page-table indices (511,510,1,0)"
    //@ obligation C09 C09.translate_any.shape_p1_leaf.writes_nothing tier=thorough bounded="pool of 7 tables (4 path + 3 allocatable); tree-shaped sparse pre-state (target path, one neighbour word per path table, garbage in allocatable frames); page-table indices (511,510,1,0)"
    //@ obligation C09 C09.translate_any.shape_p1_leaf.no_frames_requested_or_zeroed tier=thorough bounded="pool of 7 tables (4 path + 3 allocatable); tree-shaped sparse pre-state (target path, one neighbour word per path table, garbage in allocatable frames); page-table indices (511,510,1,0)"
    //@ obligation C09 C09.translate_any.shape_p1_leaf.no_access_outside_page_tables tier=thorough bounded="pool of 7 tables (4 path + 3 allocatable); tree-shaped sparse pre-state (target path, one neighbour word per path table, garbage in allocatable frames); page-table indices (511,510,1,0)"
    #[kani::proof]
    #[kani::stub(PageTable::zero, zero_stub)]
    fn c01_translate_any_p1_leaf_hi() {
        translate_step!(Size4KiB, "any", "p1_leaf", P1_LEAF, IDX_HI);
        kani::cover!(true, "c01_translate_any_p1_leaf_hi: reachable");
    }

    //@ obligation C01 C01.translate_any.shape_p1_leaf.target_agrees_with_walk bounded="pool of 7 tables (4 path + 3 allocatable); tree-shaped sparse pre-state (target path, one neighbour word per path table, garbage in allocatable frames); page-table indices (255,511,0,256)"
    //@ obligation C01 C01.translate_any.shape_p1_leaf.probe_agrees_with_walk bounded="pool of 7 tables (4 path + 3 allocatable); tree-shaped sparse pre-state (target path, one neighbour word per path table, garbage in allocatable frames); page-table indices (255,511,0,256)"
    //@ obligation C01 C01.translate_addr_any.shape_p1_leaf.agrees_with_walk bounded="pool of 7 tables (4 path + 3 allocatable); tree-shaped sparse pre-state (target path, one neighbour word per path table, garbage in allocatable frames); page-table indices (255,511,0,256)"
    //@ obligation C09 C09.translate_any.shape_p1_leaf.writes_nothing bounded="pool of 7 tables (4 path + 3 allocatable); tree-shaped sparse pre-state (target path, one neighbour word per path table, garbage in allocatable frames); page-table indices (255,511,0,256)"
    //@ obligation C09 C09.translate_any.shape_p1_leaf.no_frames_requested_or_zeroed bounded="pool of 7 tables (4 path + 3 allocatable); tree-shaped sparse pre-state (target path, one neighbour word per path table, garbage in allocatable frames); page-table indices (255,511,0,256)"
    //@ obligation C09 C09.translate_any.shape_p1_leaf.no_access_outside_page_tables bounded="pool of 7 tables (4 path + 3 allocatable); tree-shaped sparse pre-state (target path, one neighbour word per path table, garbage in allocatable frames); page-table indices (255,511,0,256)"
    #[kani::proof]
    #[kani::stub(PageTable::zero, zero_stub)]
    fn c01_translate_any_p1_leaf_mid() {
        translate_step!(Size4KiB, "any", "p1_leaf", P1_LEAF, IDX_MID);
        kani::cover!(true, "c01_translate_any_p1_leaf_mid: reachable");
    }

    //@ obligation C01 C01.translate_any.shape_p1_leaf.target_agrees_with_walk tier=thorough bounded="pool of 7 tables (4 path + 3 allocatable); tree-shaped sparse pre-state (target path, one neighbour word per path table, garbage in allocatable frames); page-table indices (256,0,510,511)"
    //@ obligation C01 C01.translate_any.shape_p1_leaf.probe_agrees_with_walk tier=thorough bounded="pool of 7 tables (4 path + 3 allocatable); tree-shaped sparse pre-state (target path, one neighbour word per path table, garbage in allocatable frames); page-table indices (256,0,510,511)"
    //@ obligation C01 C01.translate_addr_any.shape_p1_leaf.agrees_with_walk tier=thorough bounded="pool of 7 tables (4 path + 3 allocatable); tree-shaped sparse pre-state (target path, one neighbour word per path table, garbage in allocatable frames); page-table indices (256,0,510,511)"
    //@ obligation C09 C09.translate_any.shape_p1_leaf.writes_nothing tier=thorough bounded="pool of 7 tables (4 path + 3 allocatable); tree-shaped sparse pre-state (target path, one neighbour word per path table, garbage in allocatable frames); page-table indices (256,0,510,511)"
    //@ obligation C09 C09.translate_any.shape_p1_leaf.no_frames_requested_or_zeroed tier=thorough bounded="pool of 7 tables (4 path + 3 allocatable); tree-shaped sparse pre-state (target path, one neighbour word per path table, garbage in allocatable frames); page-table indices (256,0,510,511)"
    //@ obligation C09 C09.translate_any.shape_p1_leaf.no_access_outside_page_tables tier=thorough bounded="pool of 7 tables (4 path + 3 allocatable); tree-shaped sparse pre-state (target path, one neighbour word per path table, garbage in allocatable frames); page-table indices (256,0,510,511)"
    #[kani::proof]
    #[kani::stub(PageTable::zero, zero_stub)]
    fn c01_translate_any_p1_leaf_up() {
        translate_step!(Size4KiB, "any", "p1_leaf", P1_LEAF, IDX_UP);
        kani::cover!(true, "c01_translate_any_p1_leaf_up: reachable");
    }
}
