//@ include-into src/structures/tss.rs
// C15, part 2: the 64-bit TSS and the descriptor-table pointer have exactly the
// hardware layout.
//
// Offsets from the manuals, not from the crate:
//   64-bit TSS (SDM 3A 8.7 figure 8-11, APM 2 12.2.5 figure 12-8), 0x68 bytes:
//     0x00 reserved (4)      0x04 RSP0  0x0C RSP1  0x14 RSP2
//     0x1C reserved (8)      0x24 IST1 ... 0x54 IST7 (7 x 8)
//     0x5C reserved (8)      0x64 reserved (2)     0x66 I/O map base (2)
//   Pseudo-descriptor for LGDT/LIDT in 64-bit mode (SDM 2A "LGDT/LIDT"):
//     bytes 0..2 limit, bytes 2..10 base, 10 bytes in all.
#[cfg(kani)]
#[allow(unused_imports, clippy::all)]
mod verif_c15_layout {
    use super::*;
    use crate::structures::DescriptorTablePointer;
    use core::mem::offset_of;

    // Raw reads through a byte pointer (no `transmute` to a fixed-size array: a
    // size change must FAIL the size obligation, not break the build).
    unsafe fn rd8<T>(v: &T, o: usize) -> u8 {
        unsafe { core::ptr::read((v as *const T as *const u8).add(o)) }
    }
    unsafe fn rd16<T>(v: &T, o: usize) -> u16 {
        unsafe { core::ptr::read_unaligned((v as *const T as *const u8).add(o) as *const u16) }
    }
    unsafe fn rd64<T>(v: &T, o: usize) -> u64 {
        unsafe { core::ptr::read_unaligned((v as *const T as *const u8).add(o) as *const u64) }
    }

    //@ obligation C15 C15.TaskStateSegment.size_0x68
    //@ obligation C15 C15.TaskStateSegment.privilege_stack_table_at_4
    //@ obligation C15 C15.TaskStateSegment.interrupt_stack_table_at_0x24
    //@ obligation C15 C15.TaskStateSegment.iomap_base_at_0x66
    //@ obligation C15 C15.TaskStateSegment.reserved_fields_fill_the_gaps
    #[kani::proof]
    fn c15_tss_field_offsets() {
        kani::cover!(true, "c15_tss_field_offsets: reachable");
        assert!(
            size_of::<TaskStateSegment>() == 0x68,
            "C15.TaskStateSegment.size_0x68: size_of == 0x68"
        );
        assert!(
            offset_of!(TaskStateSegment, privilege_stack_table) == 4
                && size_of::<[VirtAddr; 3]>() == 24,
            "C15.TaskStateSegment.privilege_stack_table_at_4: offset 4, 3 x 8 bytes"
        );
        assert!(
            offset_of!(TaskStateSegment, interrupt_stack_table) == 0x24
                && size_of::<[VirtAddr; 7]>() == 56,
            "C15.TaskStateSegment.interrupt_stack_table_at_0x24: offset 0x24, 7 x 8 bytes"
        );
        assert!(
            offset_of!(TaskStateSegment, iomap_base) == 0x66,
            "C15.TaskStateSegment.iomap_base_at_0x66: offset 0x66"
        );
        assert!(
            offset_of!(TaskStateSegment, reserved_1) == 0
                && offset_of!(TaskStateSegment, reserved_2) == 0x1C
                && offset_of!(TaskStateSegment, reserved_3) == 0x5C
                && offset_of!(TaskStateSegment, reserved_4) == 0x64,
            "C15.TaskStateSegment.reserved_fields_fill_the_gaps: reserved at 0, 0x1C, 0x5C, 0x64"
        );
    }

    /// The same through pointer differences on a real value, element-wise for a
    /// symbolic element number (RSPn at 4 + 8n, IST(k+1) at 0x24 + 8k).
    //@ obligation C15 C15.TaskStateSegment.rsp_n_at_4_plus_8n
    //@ obligation C15 C15.TaskStateSegment.ist_k_at_0x24_plus_8k
    //@ obligation C15 C15.TaskStateSegment.iomap_base_pointer_at_0x66
    #[kani::proof]
    fn c15_tss_element_addresses() {
        let n: usize = kani::any();
        let k: usize = kani::any();
        kani::assume(n < 3 && k < 7);
        kani::cover!(true, "c15_tss_element_addresses: reachable");
        let tss = TaskStateSegment::new();
        let base = core::ptr::addr_of!(tss) as *const u8;
        let rsp = unsafe { (core::ptr::addr_of!(tss.privilege_stack_table) as *const VirtAddr).add(n) }
            as *const u8;
        let ist = unsafe { (core::ptr::addr_of!(tss.interrupt_stack_table) as *const VirtAddr).add(k) }
            as *const u8;
        let iom = core::ptr::addr_of!(tss.iomap_base) as *const u8;
        assert!(
            unsafe { rsp.offset_from(base) } == 4 + 8 * n as isize,
            "C15.TaskStateSegment.rsp_n_at_4_plus_8n: &privilege_stack_table[n] - &tss"
        );
        assert!(
            unsafe { ist.offset_from(base) } == 0x24 + 8 * k as isize,
            "C15.TaskStateSegment.ist_k_at_0x24_plus_8k: &interrupt_stack_table[k] - &tss"
        );
        assert!(
            unsafe { iom.offset_from(base) } == 0x66,
            "C15.TaskStateSegment.iomap_base_pointer_at_0x66: &iomap_base - &tss"
        );
    }

    /// `new()`: byte 0x66 = 0x68, byte 0x67 = 0, every other byte 0 (one
    /// symbolic byte index instead of a loop).
    //@ obligation C15 C15.TaskStateSegment_new.iomap_base_is_0x68
    //@ obligation C15 C15.TaskStateSegment_new.all_other_bytes_zero
    #[kani::proof]
    fn c15_tss_new_bytes() {
        let i: usize = kani::any();
        kani::assume(i < 0x68);
        kani::cover!(true, "c15_tss_new_bytes: reachable");
        let tss = TaskStateSegment::new();
        let iomap_base = tss.iomap_base;
        assert!(
            iomap_base == 0x68,
            "C15.TaskStateSegment_new.iomap_base_is_0x68: field value"
        );
        assert!(
            unsafe { rd8(&tss, 0x66) == 0x68 && rd8(&tss, 0x67) == 0x00 },
            "C15.TaskStateSegment_new.iomap_base_is_0x68: little-endian 0x0068 at bytes 0x66..0x68"
        );
        assert!(
            i == 0x66 || i == 0x67 || unsafe { rd8(&tss, i) } == 0,
            "C15.TaskStateSegment_new.all_other_bytes_zero: byte i == 0"
        );
        let d = TaskStateSegment::default();
        assert!(
            unsafe { rd8(&d, i) == rd8(&tss, i) },
            "C15.TaskStateSegment_new.all_other_bytes_zero: default() == new() bytewise"
        );
    }

    /// A TSS whose fields were written through the public names has the values
    /// at the architectural byte positions (little endian), for symbolic values.
    //@ obligation C15 C15.TaskStateSegment.fields_read_back_at_hardware_offsets
    #[kani::proof]
    fn c15_tss_written_fields_bytes() {
        let n: usize = kani::any();
        let k: usize = kani::any();
        kani::assume(n < 3 && k < 7);
        let rsp: u64 = kani::any();
        let ist: u64 = kani::any();
        let iom: u16 = kani::any();
        kani::cover!(true, "c15_tss_written_fields_bytes: reachable");
        let mut tss = TaskStateSegment::new();
        let mut pst = tss.privilege_stack_table;
        pst[n] = VirtAddr::new_truncate(rsp);
        tss.privilege_stack_table = pst;
        let mut istt = tss.interrupt_stack_table;
        istt[k] = VirtAddr::new_truncate(ist);
        tss.interrupt_stack_table = istt;
        tss.iomap_base = iom;
        assert!(
            unsafe {
                rd64(&tss, 4 + 8 * n) == VirtAddr::new_truncate(rsp).as_u64()
                    && rd64(&tss, 0x24 + 8 * k) == VirtAddr::new_truncate(ist).as_u64()
                    && rd16(&tss, 0x66) == iom
            },
            "C15.TaskStateSegment.fields_read_back_at_hardware_offsets: RSPn, IST(k+1), I/O map base"
        );
    }

    //@ obligation C15 C15.DescriptorTablePointer.size_10
    //@ obligation C15 C15.DescriptorTablePointer.limit_at_0
    //@ obligation C15 C15.DescriptorTablePointer.base_at_2
    #[kani::proof]
    fn c15_dtp_layout() {
        let limit: u16 = kani::any();
        let base: u64 = kani::any();
        kani::cover!(true, "c15_dtp_layout: reachable");
        assert!(
            size_of::<DescriptorTablePointer>() == 10,
            "C15.DescriptorTablePointer.size_10: size_of == 10"
        );
        assert!(
            offset_of!(DescriptorTablePointer, limit) == 0 && size_of::<u16>() == 2,
            "C15.DescriptorTablePointer.limit_at_0: offset_of limit == 0"
        );
        assert!(
            offset_of!(DescriptorTablePointer, base) == 2 && size_of::<VirtAddr>() == 8,
            "C15.DescriptorTablePointer.base_at_2: offset_of base == 2"
        );
        let b = VirtAddr::new_truncate(base);
        let p = DescriptorTablePointer { limit, base: b };
        assert!(
            unsafe { rd16(&p, 0) } == limit,
            "C15.DescriptorTablePointer.limit_at_0: bytes 0..2 are the limit, little endian"
        );
        assert!(
            unsafe { rd64(&p, 2) } == b.as_u64(),
            "C15.DescriptorTablePointer.base_at_2: bytes 2..10 are the base, little endian"
        );
    }
}
